package reservation

// C19 "Scheduler allocation state survives a restart unchanged" - part resv (reservation plugin).
//
// Live path: the REAL plugin on a Plugin literal (no informers, no goroutines): a reservation is scheduled by
// PreFilter + Reserve of its reserve pod (assumeReservation) and becomes Available by the status write Bind performs
// (reservationutil.SetReservationAvailable) delivered through reservationEventHandler.OnUpdate; an owner pod is
// scheduled by BeforePreFilter (real owner / name matching over the cache) -> PreFilter -> Reserve (NominateReservation
// + assumePods) -> PreBind (SetReservationAllocated on the pod). Informer events of bound / deleted pods (a terminated
// pod leaves the scheduler's filtered pod watch, i.e. is a delete too) and of expiring / deleted reservations go through
// the real handlers. BFS over such histories; every reached state
// is a cut point "after a bind".
// Restart path: a FRESH reservationCache + handlers fed ONLY the persisted objects (Reservation objects + pod objects
// carrying the reservation-allocated annotation) in EVERY permutation (so both reservation-before-its-pods and
// pods-before-their-reservation), per permutation additionally one duplicate add and one same-allocation update.
// Oracle: canonical dump of the live cache (ReservationInfo ledger, assigned pods, per-node indexes) == dump of the
// rebuilt cache for every delivery; explicitly: no reserved amount held by a surviving owner pod is available after
// the rebuild and a consumed allocate-once reservation is not matchable again.

import (
	"context"
	"fmt"
	"sort"
	"strings"
	"sync"
	"testing"
	"time"

	corev1 "k8s.io/api/core/v1"
	"k8s.io/apimachinery/pkg/api/resource"
	metav1 "k8s.io/apimachinery/pkg/apis/meta/v1"
	"k8s.io/apimachinery/pkg/types"
	"k8s.io/client-go/tools/cache"
	"k8s.io/client-go/util/workqueue"
	fwktype "k8s.io/kube-scheduler/framework"
	"k8s.io/kubernetes/pkg/scheduler/framework"
	"k8s.io/utils/ptr"

	apiext "github.com/koordinator-sh/koordinator/apis/extension"
	schedulingv1alpha1 "github.com/koordinator-sh/koordinator/apis/scheduling/v1alpha1"
	listerschedulingv1alpha1 "github.com/koordinator-sh/koordinator/pkg/client/listers/scheduling/v1alpha1"
	"github.com/koordinator-sh/koordinator/pkg/scheduler/frameworkext"
	reservationutil "github.com/koordinator-sh/koordinator/pkg/util/reservation"
	"github.com/koordinator-sh/koordinator/pkg/zzverif/mc"
)

const (
	c19ResvNS  = "default"
	c19ResvGi  = int64(1) << 30
	c19ResvFoo = corev1.ResourceName("example.com/foo")
)

// ---------------------------------------------------------------------------------------------------------------
// fixtures

// c19ResvHandle serves what BeforePreFilter (node snapshot, parallelizer) and Reserve (reservation nominator = the
// plugin itself, as the framework extender registers it) read. Every other method of the embedded nil interface panics.
type c19ResvHandle struct {
	frameworkext.ExtendedHandle
	snapshot *c19ResvSnapshot
	pl       *Plugin
}

func (h *c19ResvHandle) SnapshotSharedLister() fwktype.SharedLister                 { return h.snapshot }
func (h *c19ResvHandle) Parallelizer() fwktype.Parallelizer                         { return c19ResvSerial{} }
func (h *c19ResvHandle) GetReservationNominator() frameworkext.ReservationNominator { return h.pl }

type c19ResvSerial struct{}

func (c19ResvSerial) Until(ctx context.Context, pieces int, f workqueue.DoWorkPieceFunc, op string) {
	for i := 0; i < pieces; i++ {
		f(i)
	}
}

type c19ResvSnapshot struct{ infos map[string]fwktype.NodeInfo }

func (f *c19ResvSnapshot) NodeInfos() fwktype.NodeInfoLister       { return f }
func (f *c19ResvSnapshot) StorageInfos() fwktype.StorageInfoLister { return f }
func (f *c19ResvSnapshot) IsPVCUsedByPods(key string) bool         { return false }
func (f *c19ResvSnapshot) List() ([]fwktype.NodeInfo, error) {
	var out []fwktype.NodeInfo
	for _, v := range f.infos {
		out = append(out, v)
	}
	return out, nil
}
func (f *c19ResvSnapshot) HavePodsWithAffinityList() ([]fwktype.NodeInfo, error) { return nil, nil }
func (f *c19ResvSnapshot) HavePodsWithRequiredAntiAffinityList() ([]fwktype.NodeInfo, error) {
	return nil, nil
}
func (f *c19ResvSnapshot) Get(nodeName string) (fwktype.NodeInfo, error) {
	ni, ok := f.infos[nodeName]
	if !ok {
		return nil, fmt.Errorf("unable to find node: %s", nodeName)
	}
	return ni, nil
}

var c19ResvSnap = func() *c19ResvSnapshot {
	s := &c19ResvSnapshot{infos: map[string]fwktype.NodeInfo{}}
	for _, n := range []string{"n1", "n2"} {
		ni := framework.NewNodeInfo()
		ni.SetNode(&corev1.Node{ObjectMeta: metav1.ObjectMeta{Name: n}})
		s.infos[n] = ni
	}
	return s
}()

type c19ResvVec struct{ cpuMilli, mem, foo int64 }

type c19ResvSpec struct {
	name     string
	node     string
	once     bool
	policy   schedulingv1alpha1.ReservationAllocatePolicy
	size     c19ResvVec
	hostPort int32
}

type c19ResvShape struct {
	name     string
	req      c19ResvVec
	hostPort int32
}

func c19ResvRL(v c19ResvVec) corev1.ResourceList {
	rl := corev1.ResourceList{}
	if v.cpuMilli > 0 {
		rl[corev1.ResourceCPU] = *resource.NewMilliQuantity(v.cpuMilli, resource.DecimalSI)
	}
	if v.mem > 0 {
		rl[corev1.ResourceMemory] = *resource.NewQuantity(v.mem, resource.BinarySI)
	}
	if v.foo > 0 {
		rl[c19ResvFoo] = *resource.NewQuantity(v.foo, resource.DecimalSI)
	}
	return rl
}

func c19ResvContainer(v c19ResvVec, hostPort int32) corev1.Container {
	c := corev1.Container{Name: "c", Resources: corev1.ResourceRequirements{Requests: c19ResvRL(v), Limits: c19ResvRL(v)}}
	if hostPort > 0 {
		c.Ports = []corev1.ContainerPort{{HostPort: hostPort, ContainerPort: hostPort, Protocol: corev1.ProtocolTCP}}
	}
	return c
}

func c19ResvObj(sp *c19ResvSpec) *schedulingv1alpha1.Reservation {
	return &schedulingv1alpha1.Reservation{
		ObjectMeta: metav1.ObjectMeta{Name: sp.name, UID: types.UID("uid-" + sp.name), ResourceVersion: "1"},
		Spec: schedulingv1alpha1.ReservationSpec{
			Template:       &corev1.PodTemplateSpec{Spec: corev1.PodSpec{Containers: []corev1.Container{c19ResvContainer(sp.size, sp.hostPort)}}},
			Owners:         []schedulingv1alpha1.ReservationOwner{{LabelSelector: &metav1.LabelSelector{MatchLabels: map[string]string{"c19/owner": sp.name}}}},
			TTL:            &metav1.Duration{Duration: 24 * time.Hour},
			AllocateOnce:   ptr.To(sp.once),
			AllocatePolicy: sp.policy,
		},
	}
}

func c19ResvPodObj(id int, sh *c19ResvShape, rname string) *corev1.Pod {
	pod := &corev1.Pod{
		// unique name and UID per incarnation
		ObjectMeta: metav1.ObjectMeta{Namespace: c19ResvNS, Name: fmt.Sprintf("p%d", id), UID: types.UID(fmt.Sprintf("uid-p%d", id)), ResourceVersion: "1",
			Labels: map[string]string{"c19/owner": rname}},
		Spec:   corev1.PodSpec{Containers: []corev1.Container{c19ResvContainer(sh.req, sh.hostPort)}},
		Status: corev1.PodStatus{Phase: corev1.PodPending},
	}
	// the pod names the reservation it wants (reservation affinity by name): the real code then matches, nominates and
	// assumes exactly that reservation without any scoring extension
	if err := apiext.SetReservationAffinity(pod, &apiext.ReservationAffinity{Name: rname}); err != nil {
		panic(err)
	}
	return pod
}

type c19ResvCfg struct {
	name    string
	specs   []c19ResvSpec
	shapes  []c19ResvShape
	maxPods int
	depthQ  int
	depthT  int
	share   float64

	memo   sync.Map
	gate   c19ResvGate
	nontrv *mc.DistinctSet
}

// ---------------------------------------------------------------------------------------------------------------
// canonical dump of a reservationCache: the allocation state the property names.
// Per ReservationInfo: identity, node, phase, policy, the reserved resource names, allocatable / allocated / inner
// reserved amounts, the pre-calculated available and allocated figures, allocated host ports, the assigned pods with
// their requirements, matchability; plus the three per-node indexes. Amounts are compared by value (milli for cpu);
// an entry of amount 0 equals an absent entry (a released holding leaves explicit zeros behind, a zero amount is no
// holding). Dropped, each not allocation state: the Reservation object's resourceVersion / condition timestamps
// (metav1.Now() at bind time), ReservationInfo.Pod (the reserve pod, a pure function of the Reservation object),
// OwnerMatchers (parsed spec.owners), the nominator (per-scheduling-cycle hints of unbound pods, nothing of it is
// persisted), preAllocatablePodsOnNode is dumped by size only (no pre-allocatable candidates in this part);
// Non0AllocatedMilliCPU / Non0AllocatedMem: scoring inputs with kube-scheduler's "non-zero request" defaults (100m /
// 200MB substituted when a resource key is ABSENT from Allocated) - they depend on whether a released amount is kept as
// an explicit 0 or the map is nil, i.e. on representation, and nobody holds them (differences are counted as
// diagnostics); matchableOnNode (the lookup of reservations offered for matching) is not allocation state either: a
// consumed allocate-once reservation stays a stale member until the next reservation event is handled, and one whose
// owner pod left is re-entered only by the next reservation event, so its membership depends on event timing while
// the ledgers agree; every consumer re-checks the ReservationInfo (FilterNominateReservation). DESIGN 3.1 names
// "matchable map = IsMatchable set" an implementation-mirroring diagnostic of C05: differences are counted, not judged.
// What IS judged about matchability: the ReservationInfo's own IsMatchable() (ledger line) and the explicit clause that
// a consumed allocate-once reservation is not matchable after the rebuild.

type c19ResvDump struct{ sections map[string][]string }

var c19ResvSections = []string{"ledger", "assigned", "index-on-node", "index-allocated", "candidates"}

// c19ResvDiagSections are rendered and counted but never judged (see above).
var c19ResvDiagSections = []string{"diag-non0", "diag-index-matchable"}

func c19ResvFmtRL(rl corev1.ResourceList) string {
	ks := make([]string, 0, len(rl))
	for k := range rl {
		ks = append(ks, string(k))
	}
	sort.Strings(ks)
	var sb strings.Builder
	for _, k := range ks {
		q := rl[corev1.ResourceName(k)]
		if v := q.MilliValue(); v != 0 {
			fmt.Fprintf(&sb, "%s=%dm,", k, v)
		}
	}
	return sb.String()
}

func c19ResvFmtRes(r *framework.Resource) string {
	if r == nil {
		return "<nil>"
	}
	var sb strings.Builder
	fmt.Fprintf(&sb, "cpu=%d,mem=%d,es=%d,pods=%d", r.MilliCPU, r.Memory, r.EphemeralStorage, r.AllowedPodNumber)
	ks := make([]string, 0, len(r.ScalarResources))
	for k, v := range r.ScalarResources {
		if v != 0 {
			ks = append(ks, fmt.Sprintf("%s=%d", k, v))
		}
	}
	sort.Strings(ks)
	return sb.String() + "," + strings.Join(ks, ",")
}

func c19ResvFmtPorts(p fwktype.HostPortInfo) string {
	var out []string
	for ip, m := range p {
		for pp := range m {
			out = append(out, fmt.Sprintf("%s/%s/%d", ip, pp.Protocol, pp.Port))
		}
	}
	sort.Strings(out)
	return strings.Join(out, ",")
}

func c19ResvIndex(m map[string]map[types.UID]struct{}) []string {
	var out []string
	for node, uids := range m {
		for uid := range uids {
			out = append(out, fmt.Sprintf("%s:%s", node, uid))
		}
	}
	sort.Strings(out)
	return out
}

func c19ResvTakeDump(c *reservationCache) *c19ResvDump {
	d := &c19ResvDump{sections: map[string][]string{}}
	c.lock.RLock()
	defer c.lock.RUnlock()
	for uid, ri := range c.reservationInfos {
		phase := ""
		if ri.Reservation != nil {
			phase = string(ri.Reservation.Status.Phase)
		}
		if ri.Available == nil || ri.AllocatedResource == nil {
			ri = ri.Clone() // GetAvailable() computes the figures lazily; do it on a copy, the dump must not change the cache
			ri.RefreshPreCalculated()
		}
		names := make([]string, 0, len(ri.ResourceNames))
		for _, n := range ri.ResourceNames {
			names = append(names, string(n))
		}
		sort.Strings(names)
		d.sections["ledger"] = append(d.sections["ledger"], fmt.Sprintf("%s name=%s node=%s phase=%s policy=%q once=%v names=%v allocatable{%s} allocated{%s} reserved{%s} available{%s} allocatedRes{%s} ports{%s} matchable=%v parseErr=%v pods=%d",
			uid, ri.GetName(), ri.GetNodeName(), phase, ri.GetAllocatePolicy(), ri.IsAllocateOnce(), names, c19ResvFmtRL(ri.Allocatable), c19ResvFmtRL(ri.Allocated), c19ResvFmtRL(ri.Reserved),
			c19ResvFmtRes(ri.Available), c19ResvFmtRes(ri.AllocatedResource), c19ResvFmtPorts(ri.AllocatedPorts), ri.IsMatchable(), ri.ParseError != nil, len(ri.AssignedPods)))
		d.sections["diag-non0"] = append(d.sections["diag-non0"], fmt.Sprintf("%s non0=%d/%d", uid, ri.Non0AllocatedMilliCPU, ri.Non0AllocatedMem))
		for puid, pr := range ri.AssignedPods {
			d.sections["assigned"] = append(d.sections["assigned"], fmt.Sprintf("%s <- %s %s/%s req{%s} ports{%s}", uid, puid, pr.Namespace, pr.Name, c19ResvFmtRL(pr.Requests), c19ResvFmtPorts(pr.Ports)))
		}
	}
	d.sections["index-on-node"] = c19ResvIndex(c.reservationsOnNode)
	d.sections["diag-index-matchable"] = c19ResvIndex(c.matchableOnNode)
	d.sections["index-allocated"] = c19ResvIndex(c.allocatedOnNode)
	for node, pc := range c.preAllocatablePodsOnNode {
		d.sections["candidates"] = append(d.sections["candidates"], fmt.Sprintf("%s:%d", node, len(pc.index)))
	}
	for _, l := range d.sections {
		sort.Strings(l)
	}
	return d
}

// Raw renders the judged and the not-judged sections (state key).
func (d *c19ResvDump) Raw() string {
	var sb strings.Builder
	sb.WriteString(d.String())
	for _, sec := range c19ResvDiagSections {
		fmt.Fprintf(&sb, "[%s] %s\n", sec, strings.Join(d.sections[sec], "; "))
	}
	return sb.String()
}

func (d *c19ResvDump) String() string {
	var sb strings.Builder
	for _, sec := range c19ResvSections {
		fmt.Fprintf(&sb, "[%s]\n", sec)
		for _, l := range d.sections[sec] {
			fmt.Fprintf(&sb, "  %s\n", l)
		}
	}
	return sb.String()
}

func (d *c19ResvDump) diff(o *c19ResvDump) []string {
	var out []string
	for _, sec := range c19ResvSections {
		if strings.Join(d.sections[sec], ";") != strings.Join(o.sections[sec], ";") {
			out = append(out, sec)
		}
	}
	return out
}

// ---------------------------------------------------------------------------------------------------------------
// the system

type c19ResvR struct {
	spec    *c19ResvSpec
	obj     *schedulingv1alpha1.Reservation // the persisted object; nil: not created yet or deleted
	active  bool                            // Available on its node
	retired bool                            // terminal phase or deleted: never used again (names are unique per incarnation)
}

type c19ResvPod struct {
	id         int
	shape      *c19ResvShape
	r          int
	obj        *corev1.Pod
	pending    *corev1.Pod
	terminated bool
	seenBind   bool
}

type c19ResvSys struct {
	cfg    *c19ResvCfg
	ops    []c19ResvOp
	res    *mc.Result
	pl     *Plugin
	rh     *reservationEventHandler
	ph     *podEventHandler
	store  cache.Indexer
	rs     []*c19ResvR
	pods   []*c19ResvPod
	next   int
	counts map[string]int64
}

const (
	c19ResvOpAvail = iota
	c19ResvOpSchedule
	c19ResvOpUnreserveCycle
	c19ResvOpSeesBind
	c19ResvOpDelete
	c19ResvOpTerminate
	c19ResvOpSync
	c19ResvOpExpire
	c19ResvOpRDelete
)

type c19ResvOp struct {
	name string
	kind int
	a, b int
}

func c19ResvOps(cfg *c19ResvCfg) []c19ResvOp {
	var ops []c19ResvOp
	for i, sp := range cfg.specs {
		ops = append(ops, c19ResvOp{fmt.Sprintf("reservation-scheduled+available(%s@%s)", sp.name, sp.node), c19ResvOpAvail, i, 0})
	}
	for i, sp := range cfg.specs {
		for j, sh := range cfg.shapes {
			ops = append(ops, c19ResvOp{fmt.Sprintf("schedule+bind(%s->%s)", sh.name, sp.name), c19ResvOpSchedule, i, j})
		}
		ops = append(ops, c19ResvOp{fmt.Sprintf("reserve+unreserve(%s->%s)", cfg.shapes[0].name, sp.name), c19ResvOpUnreserveCycle, i, 0})
	}
	for j := 0; j < cfg.maxPods; j++ {
		ops = append(ops,
			c19ResvOp{fmt.Sprintf("informer-bind-update(slot%d)", j), c19ResvOpSeesBind, j, 0},
			c19ResvOp{fmt.Sprintf("delete(slot%d)", j), c19ResvOpDelete, j, 0},
			c19ResvOp{fmt.Sprintf("terminated=leaves-the-filtered-watch(slot%d)", j), c19ResvOpTerminate, j, 0},
		)
	}
	for i, sp := range cfg.specs {
		ops = append(ops,
			c19ResvOp{fmt.Sprintf("reservation-status-sync(%s)", sp.name), c19ResvOpSync, i, 0},
			c19ResvOp{fmt.Sprintf("reservation-terminal-phase(%s)", sp.name), c19ResvOpExpire, i, 0},
			c19ResvOp{fmt.Sprintf("reservation-deleted(%s)", sp.name), c19ResvOpRDelete, i, 0},
		)
	}
	return ops
}

type c19ResvWorld struct {
	pl *Plugin
	rh *reservationEventHandler
	ph *podEventHandler
}

// c19ResvFresh builds a fresh cache + handlers exactly as New wires them (minus informers).
func c19ResvFresh(store cache.Indexer) *c19ResvWorld {
	lister := listerschedulingv1alpha1.NewReservationLister(store)
	rc := newReservationCache(lister)
	nm := newNominator(nil, nil) // nil listers: the "is the pod still unscheduled / the reservation still active" re-checks are skipped
	pl := &Plugin{rLister: lister, reservationCache: rc, nominator: nm,
		// LazyReservationRestore feature gate on: BeforePreFilter then only matches reservations and leaves the node snapshot
		// alone (restoring reserved amounts into NodeInfo is C05's subject and needs the full framework extender)
		enableLazyReservationRestore: true}
	pl.handle = &c19ResvHandle{snapshot: c19ResvSnap, pl: pl}
	return &c19ResvWorld{pl: pl, rh: &reservationEventHandler{cache: rc, rrNominator: nm}, ph: &podEventHandler{cache: rc, nominator: nm}}
}

func c19ResvNew(cfg *c19ResvCfg, ops []c19ResvOp, res *mc.Result) *c19ResvSys {
	s := &c19ResvSys{cfg: cfg, ops: ops, res: res, store: cache.NewIndexer(cache.MetaNamespaceKeyFunc, cache.Indexers{})}
	w := c19ResvFresh(s.store)
	s.pl, s.rh, s.ph = w.pl, w.rh, w.ph
	for i := range cfg.specs {
		s.rs = append(s.rs, &c19ResvR{spec: &cfg.specs[i]})
	}
	return s
}

func (s *c19ResvSys) count(name string, n int64) {
	if s.counts == nil {
		s.counts = map[string]int64{}
	}
	s.counts[name] += n
}

func (s *c19ResvSys) flush() {
	for k, v := range s.counts {
		s.res.Count(k, v)
	}
	s.counts = nil
}

// reference arithmetic (plain): what the surviving bound pods hold of reservation i, masked to what it reserves
func (s *c19ResvSys) held(i int) (c19ResvVec, int) {
	var v c19ResvVec
	n := 0
	for _, p := range s.pods {
		if p.r == i && !p.terminated {
			n++
			if s.rs[i].spec.size.cpuMilli > 0 {
				v.cpuMilli += p.shape.req.cpuMilli
			}
			if s.rs[i].spec.size.mem > 0 {
				v.mem += p.shape.req.mem
			}
			if s.rs[i].spec.size.foo > 0 {
				v.foo += p.shape.req.foo
			}
		}
	}
	return v, n
}

// fits: the Filter step the harness does not run: the pod's request fits what is left of the reservation
func (s *c19ResvSys) fits(i int, sh *c19ResvShape) bool {
	h, _ := s.held(i)
	sz := s.rs[i].spec.size
	if sz.cpuMilli > 0 && h.cpuMilli+sh.req.cpuMilli > sz.cpuMilli {
		return false
	}
	if sz.mem > 0 && h.mem+sh.req.mem > sz.mem {
		return false
	}
	if sz.foo > 0 && h.foo+sh.req.foo > sz.foo {
		return false
	}
	if sh.hostPort > 0 {
		for _, p := range s.pods {
			if p.r == i && !p.terminated && p.shape.hostPort == sh.hostPort {
				return false
			}
		}
	}
	return true
}

// reserve: BeforePreFilter + PreFilter + Reserve of the real plugin for an owner pod; ok=false: the real code finds no
// reservation for it (nothing changed).
func (s *c19ResvSys) reserve(i int, pod *corev1.Pod) (fwktype.CycleState, bool) {
	ctx := context.TODO()
	cs := framework.NewCycleState()
	if _, _, st := s.pl.BeforePreFilter(ctx, cs, pod); !st.IsSuccess() {
		panic(fmt.Sprintf("c19: BeforePreFilter failed: %v", st))
	}
	if _, st := s.pl.PreFilter(ctx, cs, pod, nil); !st.IsSuccess() {
		return nil, false // no matching reservation in the cache
	}
	if st := s.pl.Reserve(ctx, cs, pod, s.rs[i].spec.node); !st.IsSuccess() {
		return nil, false
	}
	if getStateData(cs).assumed == nil {
		panic("c19: Reserve succeeded without assuming a reservation")
	}
	return cs, true
}

// seeBind: the informer delivers the scheduler's own writes: the PreBind patch, then the binding
func (s *c19ResvSys) seeBind(p *c19ResvPod) {
	if p.seenBind {
		return
	}
	patched := p.obj.DeepCopy()
	patched.Spec.NodeName, patched.ResourceVersion, patched.Status.Phase = "", "2", corev1.PodPending
	s.ph.OnUpdate(p.pending, patched)
	s.ph.OnUpdate(patched, p.obj)
	p.seenBind = true
}

func (s *c19ResvSys) Apply(opi int, check bool) (bool, []mc.Violation) {
	op := s.ops[opi]
	ctx := context.TODO()
	switch op.kind {
	case c19ResvOpAvail:
		r := s.rs[op.a]
		if r.obj != nil || r.retired {
			return false, nil
		}
		pending := c19ResvObj(r.spec)
		if err := s.store.Add(pending); err != nil {
			panic(err)
		}
		s.rh.OnAdd(pending, false)
		// scheduling cycle of the reserve pod
		reservePod := reservationutil.NewReservePod(pending)
		cs := framework.NewCycleState()
		if _, _, st := s.pl.BeforePreFilter(ctx, cs, reservePod); !st.IsSuccess() {
			panic(fmt.Sprintf("c19: BeforePreFilter(reserve pod) failed: %v", st))
		}
		if _, st := s.pl.PreFilter(ctx, cs, reservePod, nil); !st.IsSuccess() {
			panic(fmt.Sprintf("c19: PreFilter(reserve pod) failed: %v", st))
		}
		if st := s.pl.Reserve(ctx, cs, reservePod, r.spec.node); !st.IsSuccess() {
			panic(fmt.Sprintf("c19: Reserve(reserve pod) failed: %v", st))
		}
		// Plugin.Bind: the status write that makes the reservation Available, then its informer event
		avail := pending.DeepCopy()
		if err := reservationutil.SetReservationAvailable(avail, r.spec.node); err != nil {
			panic(err)
		}
		avail.ResourceVersion = "2"
		if err := s.store.Update(avail); err != nil {
			panic(err)
		}
		s.rh.OnUpdate(pending, avail)
		r.obj, r.active = avail, true
		if check {
			s.count("reservations_made_available", 1)
		}
		return true, nil
	case c19ResvOpSchedule, c19ResvOpUnreserveCycle:
		r := s.rs[op.a]
		sh := &s.cfg.shapes[op.b]
		if !r.active || (op.kind == c19ResvOpSchedule && len(s.pods) >= s.cfg.maxPods) || !s.fits(op.a, sh) {
			return false, nil
		}
		pending := c19ResvPodObj(s.next, sh, r.spec.name)
		cs, ok := s.reserve(op.a, pending)
		if !ok {
			if check {
				s.count("schedule_refused_by_the_real_matching", 1)
			}
			return false, nil
		}
		s.next++
		if op.kind == c19ResvOpUnreserveCycle {
			s.pl.Unreserve(ctx, cs, pending, r.spec.node)
			if check {
				s.count("reserve_unreserve_cycles", 1)
			}
			return true, nil
		}
		bound := pending.DeepCopy()
		if st := s.pl.PreBind(ctx, cs, bound, r.spec.node); !st.IsSuccess() {
			panic(fmt.Sprintf("c19: PreBind failed: %v", st))
		}
		bound.Spec.NodeName, bound.ResourceVersion, bound.Status.Phase = r.spec.node, "3", corev1.PodRunning
		s.pods = append(s.pods, &c19ResvPod{id: s.next - 1, shape: sh, r: op.a, obj: bound, pending: pending})
		var viol []mc.Violation
		if check {
			s.count("binds", 1)
			if r.spec.once {
				s.count("binds_onto_allocate_once", 1)
			}
			if r.spec.policy == schedulingv1alpha1.ReservationAllocatePolicyRestricted {
				s.count("binds_onto_restricted", 1)
			}
			// read-back clause: the annotation names exactly the reservation that was assumed
			got, err := apiext.GetReservationAllocated(bound)
			want := getStateData(cs).assumed
			if err != nil || got == nil || got.UID != want.UID() || got.Name != want.GetName() || want.UID() != r.obj.UID {
				viol = append(viol, mc.Violation{Key: "C19|resv|readback-differs|reservation-allocated", What: fmt.Sprintf("PreBind assumed %s/%s (harness asked for %s) but the annotation %q reads back as %+v (err %v)",
					want.GetName(), want.UID(), r.obj.UID, bound.Annotations[apiext.AnnotationReservationAllocated], got, err)})
			} else {
				s.count("readback_equal", 1)
			}
		}
		return true, viol
	case c19ResvOpSync, c19ResvOpExpire, c19ResvOpRDelete:
		r := s.rs[op.a]
		if !r.active {
			return false, nil
		}
		old := r.obj
		switch op.kind {
		case c19ResvOpSync:
			// the reservation controller records owners / allocated in the status; nothing the plugin's ledger reads changes
			n := old.DeepCopy()
			h, _ := s.held(op.a)
			n.Status.Allocated = c19ResvRL(h)
			n.Status.CurrentOwners = nil
			for _, p := range s.pods {
				if p.r == op.a && !p.terminated {
					n.Status.CurrentOwners = append(n.Status.CurrentOwners, corev1.ObjectReference{Namespace: p.obj.Namespace, Name: p.obj.Name, UID: p.obj.UID})
				}
			}
			n.ResourceVersion = fmt.Sprint(len(old.ResourceVersion) + 10) // any other version
			if n.ResourceVersion == old.ResourceVersion {
				n.ResourceVersion += "0"
			}
			if fmt.Sprint(n.Status.CurrentOwners) == fmt.Sprint(old.Status.CurrentOwners) && old.ResourceVersion != "2" {
				return false, nil // nothing to record: the controller does not write
			}
			if err := s.store.Update(n); err != nil {
				panic(err)
			}
			s.rh.OnUpdate(old, n)
			r.obj = n
			if check {
				s.count("reservation_status_syncs", 1)
			}
		case c19ResvOpExpire:
			n := old.DeepCopy()
			_, cnt := s.held(op.a)
			if r.spec.once && cnt > 0 {
				n.Status.Phase = schedulingv1alpha1.ReservationSucceeded
			} else {
				n.Status.Phase = schedulingv1alpha1.ReservationFailed
			}
			n.ResourceVersion = "99"
			if err := s.store.Update(n); err != nil {
				panic(err)
			}
			s.rh.OnUpdate(old, n)
			// the global reservation handler (frameworkext/eventhandlers: available -> terminated) removes the ReservationInfo
			s.pl.DeleteReservation(old)
			r.obj, r.active, r.retired = n, false, true
			if check {
				s.count("reservations_to_terminal_phase", 1)
			}
		case c19ResvOpRDelete:
			if err := s.store.Delete(old); err != nil {
				panic(err)
			}
			s.rh.OnDelete(old)
			s.pl.DeleteReservation(old) // global reservation handler's delete path
			r.obj, r.active, r.retired = nil, false, true
			if check {
				s.count("reservations_deleted", 1)
			}
		}
		return true, nil
	}
	if op.a >= len(s.pods) {
		return false, nil
	}
	p := s.pods[op.a]
	switch op.kind {
	case c19ResvOpSeesBind:
		if p.seenBind {
			return false, nil
		}
		s.seeBind(p)
	case c19ResvOpDelete:
		s.seeBind(p) // events of one object are ordered: the bind updates precede the delete
		s.ph.OnDelete(p.obj)
		s.pods = append(append([]*c19ResvPod{}, s.pods[:op.a]...), s.pods[op.a+1:]...)
		if check {
			s.count("pod_deletes", 1)
		}
	case c19ResvOpTerminate:
		// the scheduler's pod informer filters on status.phase != Succeeded/Failed (kube-scheduler's newPodInformer, which
		// koord-scheduler keeps): a pod that terminates leaves the watch, i.e. it is delivered as a DELETE carrying the
		// terminated object, and it is not listed after a restart
		s.seeBind(p)
		done := p.obj.DeepCopy()
		done.Status.Phase, done.ResourceVersion = corev1.PodSucceeded, "4"
		s.ph.OnDelete(done)
		s.pods = append(append([]*c19ResvPod{}, s.pods[:op.a]...), s.pods[op.a+1:]...)
		if check {
			s.count("pod_terminations", 1)
		}
	}
	return true, nil
}

// ---------------------------------------------------------------------------------------------------------------
// restart check

type c19ResvVerdict struct {
	viol   []mc.Violation
	counts map[string]int64
}

type c19ResvGate struct {
	mu       sync.Mutex
	admitted map[string]map[string]bool
}

// admit: per violation key only the first 4 distinct states report (the engine re-executes every witness); the rest
// is counted. Re-executions reach the same state and pass again.
func (g *c19ResvGate) admit(vkey, state string) bool {
	g.mu.Lock()
	defer g.mu.Unlock()
	if g.admitted == nil {
		g.admitted = map[string]map[string]bool{}
	}
	m := g.admitted[vkey]
	if m == nil {
		m = map[string]bool{}
		g.admitted[vkey] = m
	}
	if m[state] {
		return true
	}
	if len(m) < 4 {
		m[state] = true
		return true
	}
	return false
}

type c19ResvEvent struct {
	kind string // add | dup-add | same-update
	obj  int    // index into the surviving objects
}

type c19ResvObjRef struct {
	r   *c19ResvR
	ri  int
	pod *c19ResvPod
}

func (s *c19ResvSys) objects() []c19ResvObjRef {
	var out []c19ResvObjRef
	for i, r := range s.rs {
		if r.obj != nil {
			out = append(out, c19ResvObjRef{r: r, ri: i})
		}
	}
	for _, p := range s.pods {
		out = append(out, c19ResvObjRef{pod: p})
	}
	return out
}

func (o c19ResvObjRef) name() string {
	if o.r != nil {
		return o.r.spec.name
	}
	return fmt.Sprintf("p%d", o.pod.id)
}

func c19ResvDeliver(w *c19ResvWorld, o c19ResvObjRef, kind string) {
	if o.r != nil {
		switch kind {
		case "add", "dup-add":
			w.rh.OnAdd(o.r.obj, kind == "add")
		case "same-update":
			n := o.r.obj.DeepCopy()
			n.ResourceVersion = "777"
			w.rh.OnUpdate(o.r.obj, n)
		}
		return
	}
	switch kind {
	case "add", "dup-add":
		w.ph.OnAdd(o.pod.obj, kind == "add")
	case "same-update":
		n := o.pod.obj.DeepCopy()
		n.ResourceVersion = "777"
		n.Labels["c19/touched"] = "true"
		w.ph.OnUpdate(o.pod.obj, n)
	case "prebind-then-bound":
		// the cut lies between PreBind's patch and the moment the binding becomes visible: the fresh scheduler first sees the
		// pod still pending but already carrying the persisted allocation, then the update that only sets spec.nodeName
		pend := o.pod.obj.DeepCopy()
		pend.Spec.NodeName = ""
		pend.Status.Phase = corev1.PodPending
		pend.ResourceVersion = "1"
		w.ph.OnAdd(pend, true)
		w.ph.OnUpdate(pend, o.pod.obj)
	}
}

func (s *c19ResvSys) restartCheck() *c19ResvVerdict {
	v := &c19ResvVerdict{counts: map[string]int64{}}
	live := c19ResvTakeDump(s.pl.reservationCache)
	liveS := live.String()
	objs := s.objects()
	n := len(objs)
	holding := 0
	for _, p := range s.pods {
		if !p.terminated && s.rs[p.r].active {
			holding++
		}
	}
	if holding > 0 {
		v.counts["states_with_pods_holding_an_active_reservation"]++
	}
	if holding >= 2 {
		v.counts["states_with_2+_pods_holding_active_reservations"]++
	}
	for i, r := range s.rs {
		if _, cnt := s.held(i); r.active && r.spec.once && cnt > 0 {
			v.counts["states_with_consumed_allocate_once"]++
		}
		if r.obj != nil && !r.active {
			v.counts["states_with_surviving_terminal_reservation"]++
		}
	}
	if bad, _ := s.heldNotFree(s.pl.reservationCache); len(bad) > 0 {
		s.res.Diag("NOT judged here (C05): the LIVE cache already disagrees with what the bound owner pods hold: " + strings.Join(bad, "; "))
	}
	if n == 0 {
		return v
	}
	seenKeys := map[string]bool{}
	report := func(key, what string) {
		if !seenKeys[key] {
			seenKeys[key] = true
			v.viol = append(v.viol, mc.Violation{Key: key, What: what})
		}
	}
	judge := func(seq []c19ResvEvent, variant string) {
		w := c19ResvFresh(s.store)
		for _, ev := range seq {
			c19ResvDeliver(w, objs[ev.obj], ev.kind)
		}
		v.counts["rebuilds"]++
		v.counts["rebuilds_"+variant]++
		// order class: is some holding pod delivered before the reservation it holds?
		order := "reservations-before-their-pods"
		seenR := map[int]bool{}
		for _, ev := range seq {
			if ev.kind != "add" && ev.kind != "prebind-then-bound" {
				continue
			}
			o := objs[ev.obj]
			if o.r != nil {
				seenR[o.ri] = true
			} else if !o.pod.terminated && s.rs[o.pod.r].active && !seenR[o.pod.r] {
				order = "pod-before-its-reservation"
			}
		}
		if holding > 0 {
			v.counts["rebuilds_nontrivial_"+order]++
		}
		names := func() []string {
			out := make([]string, len(seq))
			for i, ev := range seq {
				out[i] = ev.kind + "(" + objs[ev.obj].name() + ")"
			}
			return out
		}
		got := c19ResvTakeDump(w.pl.reservationCache)
		for _, sec := range c19ResvDiagSections {
			if strings.Join(got.sections[sec], ";") != strings.Join(live.sections[sec], ";") {
				v.counts["not_judged_"+sec+"_differs"]++
			}
		}
		if gs := got.String(); gs != liveS {
			secs := live.diff(got)
			what := fmt.Sprintf("delivery %v into a fresh cache differs in %v:\n%s--- but the scheduler that made the allocations held\n%s(surviving: %s)", names(), secs, gs, liveS, s.worldString())
			if order == "pod-before-its-reservation" {
				// one witness class: every symptom of this order comes from the same place (see What)
				report("C19|resv|rebuilt-differs|pod-before-its-reservation", "["+variant+"] "+what)
			} else {
				for _, sec := range secs {
					report(fmt.Sprintf("C19|resv|rebuilt-differs|%s|%s|%s", sec, order, variant), what)
				}
			}
		} else if holding > 0 {
			v.counts["equal_dumps_nontrivial"]++
		}
		if holding > 0 {
			v.counts["corollary_checked"]++
			bad, once := s.heldNotFree(w.pl.reservationCache)
			if len(bad) > 0 {
				key := fmt.Sprintf("C19|resv|held-considered-free|%s|%s", order, variant)
				if order == "pod-before-its-reservation" {
					key = "C19|resv|held-considered-free|pod-before-its-reservation"
				}
				report(key, fmt.Sprintf("[%s] after delivery %v into a fresh cache: %s (surviving: %s)", variant, names(), strings.Join(bad, "; "), s.worldString()))
			}
			if len(once) > 0 {
				key := fmt.Sprintf("C19|resv|consumed-allocate-once-matchable-again|%s|%s", order, variant)
				if order == "pod-before-its-reservation" {
					key = "C19|resv|consumed-allocate-once-matchable-again|pod-before-its-reservation"
				}
				report(key, fmt.Sprintf("[%s] after delivery %v into a fresh cache: %s (surviving: %s)", variant, names(), strings.Join(once, "; "), s.worldString()))
			}
		}
	}
	mc.Permutations(n, func(perm []int) {
		v.counts["delivery_permutations"]++
		base := make([]c19ResvEvent, n)
		for i, o := range perm {
			base[i] = c19ResvEvent{"add", o}
		}
		judge(base, "plain")
		for pos, o := range perm {
			for _, kind := range []string{"dup-add", "same-update"} {
				variant := kind + "-pod"
				if objs[o].r != nil {
					variant = kind + "-reservation"
				}
				after := append(append(append([]c19ResvEvent{}, base[:pos+1]...), c19ResvEvent{kind, o}), base[pos+1:]...)
				judge(after, variant)
				if pos != n-1 {
					judge(append(append([]c19ResvEvent{}, base...), c19ResvEvent{kind, o}), variant)
				}
			}
			if objs[o].pod != nil && objs[o].pod.obj.Spec.NodeName != "" {
				two := append([]c19ResvEvent{}, base...)
				two[pos] = c19ResvEvent{"prebind-then-bound", o}
				judge(two, "prebind-then-bound-pod")
			}
		}
	})
	return v
}

// heldNotFree: the explicit corollary from the plain reference: for every active reservation the amounts its surviving
// bound owner pods hold are allocated and not available, each such pod is recorded; second result: consumed
// allocate-once reservations that are matchable.
func (s *c19ResvSys) heldNotFree(c *reservationCache) (bad, once []string) {
	c.lock.RLock()
	defer c.lock.RUnlock()
	for i, r := range s.rs {
		if !r.active {
			continue
		}
		h, cnt := s.held(i)
		if cnt == 0 {
			continue
		}
		ri := c.reservationInfos[r.obj.UID]
		if ri == nil {
			bad = append(bad, fmt.Sprintf("%s: active reservation with %d bound owner pod(s) is unknown", r.spec.name, cnt))
			continue
		}
		ri = ri.Clone()
		ri.RefreshPreCalculated()
		for _, p := range s.pods {
			if p.r == i && !p.terminated {
				if _, ok := ri.AssignedPods[p.obj.UID]; !ok {
					bad = append(bad, fmt.Sprintf("%s: bound owner pod p%d (annotation %s) is not among the assigned pods", r.spec.name, p.id, p.obj.Annotations[apiext.AnnotationReservationAllocated]))
				}
			}
		}
		chk := func(res string, held, size, allocated, available int64) {
			if held <= 0 {
				return
			}
			if allocated < held {
				bad = append(bad, fmt.Sprintf("%s %s: bound owner pods hold %d but only %d is allocated", r.spec.name, res, held, allocated))
			}
			if available > size-held {
				bad = append(bad, fmt.Sprintf("%s %s: bound owner pods hold %d of %d but %d is considered available", r.spec.name, res, held, size, available))
			}
		}
		cpu := ri.Allocated[corev1.ResourceCPU]
		mem := ri.Allocated[corev1.ResourceMemory]
		foo := ri.Allocated[c19ResvFoo]
		chk("cpu(milli)", h.cpuMilli, r.spec.size.cpuMilli, cpu.MilliValue(), ri.Available.MilliCPU)
		chk("memory", h.mem, r.spec.size.mem, mem.Value(), ri.Available.Memory)
		chk("example.com/foo", h.foo, r.spec.size.foo, foo.Value(), ri.Available.ScalarResources[c19ResvFoo])
		if r.spec.once && ri.IsMatchable() {
			once = append(once, fmt.Sprintf("%s is allocate-once and consumed by a bound owner pod but matchable", r.spec.name))
		}
	}
	return bad, once
}

func (s *c19ResvSys) worldString() string {
	var sb strings.Builder
	for _, r := range s.rs {
		if r.obj != nil {
			fmt.Fprintf(&sb, "%s(phase=%s,node=%s,once=%v,policy=%q) ", r.spec.name, r.obj.Status.Phase, r.obj.Status.NodeName, r.spec.once, r.spec.policy)
		}
	}
	for _, p := range s.pods {
		fmt.Fprintf(&sb, "p%d(%s->%s,terminated=%v) ", p.id, p.shape.name, s.rs[p.r].spec.name, p.terminated)
	}
	return sb.String()
}

func (s *c19ResvSys) Invariants() []mc.Violation {
	key := s.Key()
	var v *c19ResvVerdict
	if m, ok := s.cfg.memo.Load(key); ok {
		v = m.(*c19ResvVerdict)
		s.count("restart_checks_answered_from_memo", 1)
	} else {
		v = s.restartCheck()
		if _, loaded := s.cfg.memo.LoadOrStore(key, v); !loaded {
			for k, n := range v.counts {
				s.count(k, n)
			}
			s.count("restart_checks", 1)
			if v.counts["states_with_pods_holding_an_active_reservation"] > 0 {
				s.cfg.nontrv.Add(key)
			}
		}
	}
	var out []mc.Violation
	for _, x := range v.viol {
		if s.cfg.gate.admit(x.Key, key) {
			out = append(out, x)
		} else {
			s.count("violations_beyond_4_witness_states_per_key__counted_only", 1)
		}
	}
	s.flush()
	return out
}

func (s *c19ResvSys) Key() string {
	var sb strings.Builder
	for _, r := range s.rs {
		rv := ""
		if r.obj != nil {
			rv = r.obj.ResourceVersion + "/" + string(r.obj.Status.Phase) + fmt.Sprint(r.obj.Status.CurrentOwners)
		}
		fmt.Fprintf(&sb, "%s:%v:%v:%s|", r.spec.name, r.active, r.retired, rv)
	}
	for _, p := range s.pods {
		fmt.Fprintf(&sb, "p%d:%s:%d:t%v:b%v|", p.id, p.shape.name, p.r, p.terminated, p.seenBind)
	}
	sb.WriteString(c19ResvTakeDump(s.pl.reservationCache).Raw())
	// the nominator influences Reserve of later cycles only through entries of unbound pods; none survive an op
	return sb.String()
}

// ---------------------------------------------------------------------------------------------------------------

func c19ResvCfgs() []*c19ResvCfg {
	return []*c19ResvCfg{{
		name: "resv-3reservations",
		specs: []c19ResvSpec{
			{name: "r-shared", node: "n1", once: false, policy: schedulingv1alpha1.ReservationAllocatePolicyAligned, size: c19ResvVec{4000, 8 * c19ResvGi, 0}, hostPort: 8080},
			{name: "r-once", node: "n1", once: true, policy: "", size: c19ResvVec{2000, 4 * c19ResvGi, 0}},
			{name: "r-restricted", node: "n2", once: false, policy: schedulingv1alpha1.ReservationAllocatePolicyRestricted, size: c19ResvVec{4000, 0, 2}},
		},
		shapes: []c19ResvShape{
			{name: "cpu1-mem1Gi", req: c19ResvVec{1000, c19ResvGi, 0}},
			{name: "cpu2-mem2Gi-foo1", req: c19ResvVec{2000, 2 * c19ResvGi, 1}},
			{name: "cpu500m-port8080", req: c19ResvVec{500, 0, 0}, hostPort: 8080},
		},
		maxPods: 4, depthQ: 4, depthT: 5, share: 1,
	}}
}

func TestVerifC19Resv(t *testing.T) {
	env := mc.LoadEnv()
	for _, cfg := range c19ResvCfgs() {
		cfg := cfg
		cfg.nontrv = mc.NewDistinctSet()
		ops := c19ResvOps(cfg)
		res := mc.NewResult("C19", cfg.name, "bfs")
		b := &mc.BFS{Res: res, Env: env, New: func() mc.System { return c19ResvNew(cfg, ops, res) }, NumOps: len(ops),
			OpName: func(i int) string { return ops[i].name }, MaxDepth: env.Pick(cfg.depthQ, cfg.depthT), Repeats: 1}
		t0 := time.Now()
		b.Run()
		res.WallS = time.Since(t0).Seconds()
		var names []string
		for _, o := range ops {
			names = append(names, o.name)
		}
		res.Rule = fmt.Sprintf("live histories: every sequence up to the depth over %v on the real reservation Plugin (BeforePreFilter, PreFilter, Reserve, PreBind, Unreserve) and its reservation / pod event handlers; reservations: shared (aligned, 4 cpu / 8Gi, host port 8080) and allocate-once (2 cpu / 4Gi) on n1, restricted (4 cpu, 2 example.com/foo) on n2; "+
			"every reached state is cut there and the persisted objects (Reservation objects incl. terminal ones + <= %d surviving owner pod objects with their reservation-allocated annotation) are replayed into a fresh reservationCache in EVERY permutation; "+
			"per permutation additionally, for every object, one duplicate add and one same-allocation update, each placed directly after the object's add and after all adds; non-trivial = at least one surviving bound pod holding an active reservation", names, cfg.maxPods)
		res.Assumptions = []string{
			"a schedule op runs the cycle through bind; the Filter step is replaced by plain arithmetic (the request fits what is left of the reservation, host port not taken); owner pods name their reservation (reservation affinity by name), so nomination needs no scoring extension; LazyReservationRestore is on so that BeforePreFilter leaves the (empty) node snapshot alone",
			"Plugin.Bind's status write is reproduced with reservationutil.SetReservationAvailable (what Bind calls) and delivered as the informer update; the frameworkext global reservation handler's removal of a terminated / deleted reservation is reproduced by Plugin.DeleteReservation (what it calls)",
			"delivery orders: pods come from the main informer factory, reservations from the koordinator factory; both are started in the same step of cmd/koord-scheduler/app/server.go and their handlers run on different goroutines, so every relative order of a pod and a reservation is producible; events of one object are ordered",
			"no pre-allocation, no reservation-operating-mode pods, names and UIDs unique per incarnation",
		}
		if res.Bounds == nil {
			res.Bounds = map[string]any{}
		}
		res.Bounds["surviving_pod_objects_max"] = cfg.maxPods
		res.Evaluations += res.Counters["rebuilds"]
		res.Distinct = cfg.nontrv.Len()
		for _, need := range []string{"binds", "binds_onto_allocate_once", "binds_onto_restricted", "readback_equal", "states_with_pods_holding_an_active_reservation",
			"states_with_consumed_allocate_once", "rebuilds_plain", "rebuilds_dup-add-pod", "rebuilds_same-update-pod", "rebuilds_prebind-then-bound-pod", "rebuilds_dup-add-reservation", "rebuilds_same-update-reservation",
			"rebuilds_nontrivial_pod-before-its-reservation", "rebuilds_nontrivial_reservations-before-their-pods", "corollary_checked", "pod_deletes", "pod_terminations", "reserve_unreserve_cycles"} {
			if res.Counters[need] == 0 {
				res.Diag("VACUOUS: counter " + need + " stayed 0 in part " + cfg.name)
				fmt.Printf("C19 WARNING: counter %s stayed 0 in part %s\n", need, cfg.name)
			}
		}
		env.Emit(res)
	}
}
