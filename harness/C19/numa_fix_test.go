package nodenumaresource

// C19 part "numa", fixtures: small CPU layouts reported through a real NodeResourceTopology object (fed to the
// plugin's own topology event handler, live and after the restart alike), pod / reservation identities, a per-history
// copy of the real Plugin with fresh managers, and a deterministic rendering of a NodeAllocation.

import (
	"context"
	"encoding/json"
	"fmt"
	"sort"
	"strings"
	"sync"
	"testing"
	"time"

	nrtv1alpha1 "github.com/k8stopologyawareschedwg/noderesourcetopology-api/pkg/apis/topology/v1alpha1"
	corev1 "k8s.io/api/core/v1"
	"k8s.io/apimachinery/pkg/api/resource"
	metav1 "k8s.io/apimachinery/pkg/apis/meta/v1"
	"k8s.io/apimachinery/pkg/types"
	fwktype "k8s.io/kube-scheduler/framework"

	"github.com/koordinator-sh/koordinator/apis/extension"
	schedulingv1alpha1 "github.com/koordinator-sh/koordinator/apis/scheduling/v1alpha1"
	"github.com/koordinator-sh/koordinator/pkg/scheduler/frameworkext"
	"github.com/koordinator-sh/koordinator/pkg/scheduler/frameworkext/topologymanager"
	"github.com/koordinator-sh/koordinator/pkg/zzverif/mc"
)

// layout ---------------------------------------------------------------------------------------------------------------

type c19Layout struct {
	Name                                           string
	Sockets, NodesPerSocket, CoresPerNode, Threads int
	Interleaved                                    bool
	N, NumNodes                                    int
	Core, Node, Socket                             []int // by CPU id; reference tables owned by the harness
}

func c19NewLayout(s, m, c, t int, interleaved bool) *c19Layout {
	l := &c19Layout{Sockets: s, NodesPerSocket: m, CoresPerNode: c, Threads: t, Interleaved: interleaved}
	l.NumNodes = s * m
	cores := s * m * c
	l.N = cores * t
	num := "seq"
	if interleaved {
		num = "ilv"
	}
	l.Name = fmt.Sprintf("%dx%dx%dx%d-%s", s, m, c, t, num)
	l.Core, l.Node, l.Socket = make([]int, l.N), make([]int, l.N), make([]int, l.N)
	core := 0
	for si := 0; si < s; si++ {
		for mi := 0; mi < m; mi++ {
			for ci := 0; ci < c; ci++ {
				for ti := 0; ti < t; ti++ {
					id := core*t + ti
					if interleaved {
						id = ti*cores + core
					}
					l.Core[id], l.Node[id], l.Socket[id] = core, si*m+mi, si
				}
				core++
			}
		}
	}
	return l
}

func (l *c19Layout) cpusOfNode(node int) int {
	n := 0
	for id := 0; id < l.N; id++ {
		if l.Node[id] == node {
			n++
		}
	}
	return n
}

// configuration ----------------------------------------------------------------------------------------------------------

type c19PodSpec struct {
	Name        string
	Reservation bool   // the identity is a Reservation (scheduled through its reserve pod, persisted on the Reservation)
	QoS         string // "LSR", "LSE", "LS", ""
	CPU, Mem    string
	Spec        *extension.ResourceSpec     // resource-spec annotation (nil = none)
	NUMA        *extension.NUMATopologySpec // numa-topology-spec annotation (nil = none)
}

func (p c19PodSpec) String() string {
	var sb strings.Builder
	kind := "pod"
	if p.Reservation {
		kind = "reservation"
	}
	fmt.Fprintf(&sb, "%s %s qos=%s cpu=%s mem=%s", kind, p.Name, p.QoS, p.CPU, p.Mem)
	if p.Spec != nil {
		fmt.Fprintf(&sb, " bind(req=%q pref=%q excl=%q)", p.Spec.RequiredCPUBindPolicy, p.Spec.PreferredCPUBindPolicy, p.Spec.PreferredCPUExclusivePolicy)
	}
	if p.NUMA != nil {
		fmt.Fprintf(&sb, " numa(%s %s)", p.NUMA.NUMATopologyPolicy, p.NUMA.SingleNUMANodeExclusive)
	}
	return sb.String()
}

type c19Cfg struct {
	Name         string
	Node         string
	L            *c19Layout
	NodeLabels   map[string]string
	MaxRef       int    // 0 = leave the default (1)
	ReservedCPUs string // kubelet reserved CPUs reported on the NodeResourceTopology
	KubeletNUMA  string // kubelet topology manager policy reported on the NodeResourceTopology ("" = none)
	MemPerNode   string
	Pods         []c19PodSpec

	nrt  *nrtv1alpha1.NodeResourceTopology
	node *corev1.Node
	res  *mc.Result
	// opts is what the plugin's own NodeResourceTopology handler makes of nrt (computed once, by that handler); it is
	// installed into the fresh topology managers of the histories and restarts instead of re-parsing the same object
	// thousands of times. Read-only from then on.
	opts TopologyOptions

	witMu      sync.Mutex
	firstDepth map[string]int
}

// witness tells whether a violation of this class is reported in full for a history of this length. The BFS works
// level by level and re-executes every reported violation several times; a class that was already reported for a
// SHORTER history (e.g. a defect visible after a single bind shows in every later state) is only counted. Deterministic
// per level, so the re-executions of a reported witness report it again.
func (c *c19Cfg) witness(key string, depth int) bool {
	c.witMu.Lock()
	defer c.witMu.Unlock()
	if c.firstDepth == nil {
		c.firstDepth = map[string]int{}
	}
	fd, ok := c.firstDepth[key]
	if ok && fd < depth {
		return false
	}
	if !ok {
		c.firstDepth[key] = depth
	}
	return true
}

func (c *c19Cfg) build() {
	topo := extension.CPUTopology{}
	for id := 0; id < c.L.N; id++ {
		coreInSocket := c.L.Core[id] % (c.L.NodesPerSocket * c.L.CoresPerNode)
		topo.Detail = append(topo.Detail, extension.CPUInfo{ID: int32(id), Core: int32(coreInSocket), Socket: int32(c.L.Socket[id]), Node: int32(c.L.Node[id])})
	}
	tb, err := json.Marshal(topo)
	if err != nil {
		panic(err)
	}
	ann := map[string]string{extension.AnnotationNodeCPUTopology: string(tb)}
	if c.ReservedCPUs != "" {
		pb, _ := json.Marshal(extension.KubeletCPUManagerPolicy{Policy: extension.KubeletCPUManagerPolicyNone, ReservedCPUs: c.ReservedCPUs})
		ann[extension.AnnotationKubeletCPUManagerPolicy] = string(pb)
	}
	nrt := &nrtv1alpha1.NodeResourceTopology{ObjectMeta: metav1.ObjectMeta{Name: c.Node, Annotations: ann}}
	if c.KubeletNUMA != "" {
		nrt.TopologyPolicies = []string{c.KubeletNUMA}
	}
	for node := 0; node < c.L.NumNodes; node++ {
		cpu := *resource.NewQuantity(int64(c.L.cpusOfNode(node)), resource.DecimalSI)
		mem := resource.MustParse(c.MemPerNode)
		nrt.Zones = append(nrt.Zones, nrtv1alpha1.Zone{Name: fmt.Sprintf("node-%d", node), Type: "Node", Resources: nrtv1alpha1.ResourceInfoList{
			{Name: "cpu", Capacity: cpu, Allocatable: cpu, Available: cpu},
			{Name: "memory", Capacity: mem, Allocatable: mem, Available: mem},
		}})
	}
	c.nrt = nrt
	mem := resource.MustParse(c.MemPerNode)
	mem.Set(mem.Value() * int64(c.L.NumNodes))
	rl := corev1.ResourceList{corev1.ResourceCPU: *resource.NewQuantity(int64(c.L.N), resource.DecimalSI), corev1.ResourceMemory: mem, corev1.ResourcePods: resource.MustParse("100")}
	c.node = &corev1.Node{ObjectMeta: metav1.ObjectMeta{Name: c.Node, Labels: map[string]string{}}, Status: corev1.NodeStatus{Capacity: rl, Allocatable: rl.DeepCopy()}}
	for k, v := range c.NodeLabels {
		c.node.Labels[k] = v
	}
	scratch := NewTopologyOptionsManager()
	(&nodeResourceTopologyEventHandler{topologyManager: scratch}).OnAdd(nrt.DeepCopy(), true)
	c.opts = scratch.GetTopologyOptions(c.Node)
	if !c.opts.CPUTopology.IsValid() || len(c.opts.NUMANodeResources) != c.L.NumNodes {
		panic("c19: the NodeResourceTopology fixture was not understood by the plugin's handler")
	}
}

// objects ----------------------------------------------------------------------------------------------------------------

func (p c19PodSpec) meta() (labels, annotations map[string]string) {
	labels, annotations = map[string]string{}, map[string]string{}
	if p.QoS != "" {
		labels[extension.LabelPodQoS] = p.QoS
	}
	if p.Spec != nil {
		b, _ := json.Marshal(p.Spec)
		annotations[extension.AnnotationResourceSpec] = string(b)
	}
	if p.NUMA != nil {
		b, _ := json.Marshal(p.NUMA)
		annotations[extension.AnnotationNUMATopologySpec] = string(b)
	}
	return
}

func (p c19PodSpec) podSpec() corev1.PodSpec {
	req := corev1.ResourceList{}
	if p.CPU != "" {
		req[corev1.ResourceCPU] = resource.MustParse(p.CPU)
	}
	if p.Mem != "" {
		req[corev1.ResourceMemory] = resource.MustParse(p.Mem)
	}
	prio := extension.PriorityProdValueMax
	return corev1.PodSpec{Priority: &prio, Containers: []corev1.Container{{Name: "main", Resources: corev1.ResourceRequirements{Requests: req, Limits: req.DeepCopy()}}}}
}

// newPod is the pending pod as created by the user.
func (p c19PodSpec) newPod() *corev1.Pod {
	l, a := p.meta()
	return &corev1.Pod{ObjectMeta: metav1.ObjectMeta{Name: p.Name, Namespace: "default", UID: types.UID("uid-" + p.Name), Labels: l, Annotations: a, ResourceVersion: "1"}, Spec: p.podSpec()}
}

// newReservation is the pending Reservation as created by the user: QoS label and resource-spec / numa-topology-spec
// annotations live on the pod template, like on the pods the reservation stands for.
func (p c19PodSpec) newReservation() *schedulingv1alpha1.Reservation {
	l, a := p.meta()
	ttl := metav1.Duration{Duration: 24 * time.Hour}
	return &schedulingv1alpha1.Reservation{
		ObjectMeta: metav1.ObjectMeta{Name: p.Name, UID: types.UID("uid-" + p.Name), ResourceVersion: "1"},
		Spec: schedulingv1alpha1.ReservationSpec{
			Template: &corev1.PodTemplateSpec{ObjectMeta: metav1.ObjectMeta{Labels: l, Annotations: a}, Spec: p.podSpec()},
			Owners:   []schedulingv1alpha1.ReservationOwner{{Object: &corev1.ObjectReference{Namespace: "default", Name: "owner-of-" + p.Name}}},
			TTL:      &ttl,
		},
	}
}

// per-history plugin -----------------------------------------------------------------------------------------------------

// c19Base is the one full framework fixture of the process (the package's own newPluginTestSuit); every history gets
// a copy of the real Plugin that shares the read-only collaborators (args, scorers, framework handle / snapshot) and
// owns fresh managers.
type c19Base struct {
	suit *pluginTestSuit
	pl   *Plugin
}

func c19NewBase(t testing.TB, cfgs []*c19Cfg) *c19Base {
	var nodes []*corev1.Node
	for _, c := range cfgs {
		nodes = append(nodes, c.node)
	}
	suit := newPluginTestSuit(t, nil, nodes)
	p, err := suit.proxyNew(context.TODO(), suit.nodeNUMAResourceArgs, suit.Handle)
	if err != nil {
		t.Fatalf("c19: cannot build the plugin: %v", err)
	}
	return &c19Base{suit: suit, pl: p.(*Plugin)}
}

// c19Handle is the framework handle of a per-history plugin copy: everything is answered by the fixture's real
// framework extender except the NUMA topology manager admission, which must consult THIS copy as hint provider (the
// extender's own manager would ask the fixture's original plugin and its managers). RunNUMATopologyManagerAdmit of the
// real extender is exactly this one-line delegation to topologymanager.Interface.Admit.
type c19Handle struct {
	frameworkext.FrameworkExtender
	tm        topologymanager.Interface
	providers []topologymanager.NUMATopologyHintProvider
}

func (h *c19Handle) GetNUMATopologyHintProvider() []topologymanager.NUMATopologyHintProvider {
	return h.providers
}

func (h *c19Handle) RunNUMATopologyManagerAdmit(ctx context.Context, cycleState fwktype.CycleState, pod *corev1.Pod, node *corev1.Node, numaNodes []int, policyType extension.NUMATopologyPolicy, exclusivePolicy extension.NumaTopologyExclusive, allNUMANodeStatus []extension.NumaNodeStatus) *fwktype.Status {
	return h.tm.Admit(ctx, cycleState, pod, node, numaNodes, policyType, exclusivePolicy, allNUMANodeStatus)
}

// c19Managers builds what a scheduler process holds for the plugin: a topology options manager filled by the plugin's
// own NodeResourceTopology handler and an empty resource manager.
func c19Managers(cfg *c19Cfg, strategy *Plugin, deliverTopology bool) (*resourceManager, TopologyOptionsManager, *nodeResourceTopologyEventHandler) {
	tom := NewTopologyOptionsManager()
	if cfg.MaxRef > 0 {
		// "Give other plugins a chance to customize a different MaxRefCount" (topology_eventhandler.go): set before
		// the topology arrives and kept by the handler.
		tom.UpdateTopologyOptions(cfg.Node, func(o *TopologyOptions) { o.MaxRefCount = cfg.MaxRef })
	}
	th := &nodeResourceTopologyEventHandler{topologyManager: tom}
	if deliverTopology {
		if cfg.opts.CPUTopology == nil {
			panic("c19: configuration not built")
		}
		tom.UpdateTopologyOptions(cfg.Node, func(o *TopologyOptions) {
			keep := o.MaxRefCount // exactly what updateNodeResourceTopology does
			*o = cfg.opts
			o.MaxRefCount = keep
		})
	}
	rm := &resourceManager{numaAllocateStrategy: GetDefaultNUMAAllocateStrategy(strategy.pluginArgs), topologyOptionsManager: tom, nodeAllocations: map[string]*NodeAllocation{}}
	return rm, tom, th
}

func (b *c19Base) newPlugin(cfg *c19Cfg) (*Plugin, *resourceManager) {
	rm, tom, _ := c19Managers(cfg, b.pl, true)
	h := &c19Handle{FrameworkExtender: b.suit.Extender}
	h.tm = topologymanager.New(h)
	pl := &Plugin{
		handle: h, pluginArgs: b.pl.pluginArgs, nrtInformerFactory: b.pl.nrtInformerFactory, nrtLister: b.pl.nrtLister,
		scorer: b.pl.scorer, numaScorer: b.pl.numaScorer, resourceManager: rm, topologyOptionsManager: tom,
	}
	h.providers = []topologymanager.NUMATopologyHintProvider{pl}
	return pl, rm
}

// rendering --------------------------------------------------------------------------------------------------------------

func c19Amounts(rl corev1.ResourceList, into map[string]int64) {
	for name, q := range rl {
		into[string(name)] += q.MilliValue()
	}
}

func c19AmountsString(per map[int]map[string]int64) string {
	nodes := make([]int, 0, len(per))
	for node := range per {
		nodes = append(nodes, node)
	}
	sort.Ints(nodes)
	var sb strings.Builder
	sb.WriteString("{")
	for _, node := range nodes {
		names := make([]string, 0, len(per[node]))
		for name, v := range per[node] {
			if v != 0 {
				names = append(names, name)
			}
		}
		if len(names) == 0 {
			continue
		}
		sort.Strings(names)
		fmt.Fprintf(&sb, "%d:[", node)
		for _, name := range names {
			fmt.Fprintf(&sb, "%s=%dm ", name, per[node][name])
		}
		sb.WriteString("] ")
	}
	sb.WriteString("}")
	return sb.String()
}

// c19View is the canonical, section-wise rendering of one node's allocation state. Normalisations, each argued:
//   - amounts are compared as exact milli values per (NUMA node, resource); an amount of 0 equals an absent entry
//     (release leaves {cpu:0} where a never used node has no entry -- the same amount is held);
//   - the Node field of an allocatedResources entry is never read by the code (the map key is used) and is left out
//     (counted as a diagnostic when it differs from the key);
//   - empty idle/single/shared NUMA sets equal absent ones.
type c19PodRec struct{ ident, cpus, excl, numa string }

type c19View struct {
	Pods    map[string]c19PodRec
	CPUs    map[int]string
	Marks   map[int]string
	Amounts string
	Status  string
}

func (v c19View) String() string {
	var sb strings.Builder
	sb.WriteString("pods:\n")
	uids := make([]string, 0, len(v.Pods))
	for uid := range v.Pods {
		uids = append(uids, uid)
	}
	sort.Strings(uids)
	for _, uid := range uids {
		p := v.Pods[uid]
		fmt.Fprintf(&sb, " %s (%s) cpus=%s excl=%q numa=%s\n", uid, p.ident, p.cpus, p.excl, p.numa)
	}
	sb.WriteString("cpus:\n")
	ids := make([]int, 0, len(v.CPUs))
	for id := range v.CPUs {
		ids = append(ids, id)
	}
	sort.Ints(ids)
	for _, id := range ids {
		fmt.Fprintf(&sb, " cpu %d %s excl=%q\n", id, v.CPUs[id], v.Marks[id])
	}
	return sb.String() + "numa amounts: " + v.Amounts + "\nnuma status:\n" + v.Status
}

func c19Render(na *NodeAllocation) c19View {
	na.lock.RLock()
	defer na.lock.RUnlock()
	v := c19View{Pods: map[string]c19PodRec{}, CPUs: map[int]string{}, Marks: map[int]string{}}
	for uid, p := range na.allocatedPods {
		per := map[int]map[string]int64{}
		for _, r := range p.NUMANodeResources {
			if per[r.Node] == nil {
				per[r.Node] = map[string]int64{}
			}
			c19Amounts(r.Resources, per[r.Node])
		}
		v.Pods[string(uid)] = c19PodRec{ident: fmt.Sprintf("uid field %s, %s/%s", p.UID, p.Namespace, p.Name), cpus: fmt.Sprint(p.CPUSet.ToSlice()),
			excl: string(p.CPUExclusivePolicy), numa: c19AmountsString(per)}
	}
	for id, info := range na.allocatedCPUs {
		v.CPUs[id] = fmt.Sprintf("(id field %d core %d node %d socket %d) rc=%d", info.CPUID, info.CoreID, info.NodeID, info.SocketID, info.RefCount)
		v.Marks[id] = string(info.ExclusivePolicy)
	}
	var sb strings.Builder
	per := map[int]map[string]int64{}
	for node, r := range na.allocatedResources {
		if r == nil {
			continue
		}
		if per[node] == nil {
			per[node] = map[string]int64{}
		}
		c19Amounts(r.Resources, per[node])
	}
	v.Amounts = c19AmountsString(per)
	for _, m := range []struct {
		n string
		v map[int]map[string]struct{}
	}{{"shared", c19StringSets(na, true)}, {"single", c19StringSets(na, false)}} {
		nodes := make([]int, 0, len(m.v))
		for node, set := range m.v {
			if len(set) > 0 {
				nodes = append(nodes, node)
			}
		}
		sort.Ints(nodes)
		for _, node := range nodes {
			names := make([]string, 0, len(m.v[node]))
			for s := range m.v[node] {
				names = append(names, s)
			}
			sort.Strings(names)
			fmt.Fprintf(&sb, " %s %d %v\n", m.n, node, names)
		}
	}
	v.Status = sb.String()
	return v
}

func c19StringSets(na *NodeAllocation, shared bool) map[int]map[string]struct{} {
	out := map[int]map[string]struct{}{}
	src := na.singleNUMANode
	if shared {
		src = na.sharedNode
	}
	for node, set := range src {
		out[node] = map[string]struct{}{}
		for s := range set {
			out[node][s] = struct{}{}
		}
	}
	return out
}
