package deviceshare

// C19 "Scheduler allocation state survives a restart unchanged" - part dev (deviceshare plugin).
//
// Live path: the REAL Plugin.PreFilter -> Reserve (allocate + updateCacheUsed) -> PreBind (fillID + SetDeviceAllocations
// onto the pod) on a Plugin literal whose handle only serves the two listers those calls read (node snapshot, Device
// lister); informer events of the bound / deleted pods (a terminated pod leaves the scheduler's filtered pod watch, i.e.
// is a delete too) go through the real nodeDeviceCache handlers.
// BFS over such histories; every reached state is a cut point "after a bind" (a schedule op runs through bind).
// Restart path: a FRESH nodeDeviceCache fed ONLY the persisted objects (Device CR + the surviving pod objects with their
// device-allocated annotation) through onDeviceAdd / onPodAdd / onPodUpdate, in EVERY permutation of the objects, and
// for every permutation additionally with one duplicate add and one update carrying the same allocation.
// Oracle: canonical dump of the live cache == dump of the rebuilt cache, for every delivery order; explicitly: nothing
// a surviving pod holds (device share, VF) is free after the rebuild; annotation read-back == value written.

import (
	"context"
	"fmt"
	"sort"
	"strings"
	"sync"
	"testing"
	"time"

	corev1 "k8s.io/api/core/v1"
	"k8s.io/apimachinery/pkg/api/resource"
	metav1 "k8s.io/apimachinery/pkg/apis/meta/v1"
	"k8s.io/apimachinery/pkg/types"
	fwktype "k8s.io/kube-scheduler/framework"
	"k8s.io/kubernetes/pkg/scheduler/framework"
	"k8s.io/utils/ptr"

	apiext "github.com/koordinator-sh/koordinator/apis/extension"
	schedulingv1alpha1 "github.com/koordinator-sh/koordinator/apis/scheduling/v1alpha1"
	koordfake "github.com/koordinator-sh/koordinator/pkg/client/clientset/versioned/fake"
	koordinatorinformers "github.com/koordinator-sh/koordinator/pkg/client/informers/externalversions"
	schedulerconfig "github.com/koordinator-sh/koordinator/pkg/scheduler/apis/config"
	v1schedulerconfig "github.com/koordinator-sh/koordinator/pkg/scheduler/apis/config/v1"
	"github.com/koordinator-sh/koordinator/pkg/scheduler/frameworkext"
	"github.com/koordinator-sh/koordinator/pkg/scheduler/frameworkext/schedulingphase"
	"github.com/koordinator-sh/koordinator/pkg/zzverif/mc"
)

const (
	c19DevNode = "c19-node"
	c19DevNS   = "default"
	c19DevGi   = int64(1) << 30
)

// ---------------------------------------------------------------------------------------------------------------
// fixtures

// c19DevHandle serves exactly what Reserve (node snapshot, reservation nominator) and PreBind/fillID (Device lister) read
// from the handle.
// Every other method of the embedded (nil) interface panics, so an unexpected dependency cannot go unnoticed.
type c19DevHandle struct {
	frameworkext.ExtendedHandle
	snapshot  *c19DevSnapshot
	koord     koordinatorinformers.SharedInformerFactory
	nominator frameworkext.ReservationNominator // empty: no reservations in this part
}

func (h *c19DevHandle) GetReservationNominator() frameworkext.ReservationNominator {
	return h.nominator
}

func (h *c19DevHandle) SnapshotSharedLister() fwktype.SharedLister { return h.snapshot }
func (h *c19DevHandle) KoordinatorSharedInformerFactory() koordinatorinformers.SharedInformerFactory {
	return h.koord
}

type c19DevSnapshot struct{ infos map[string]fwktype.NodeInfo }

func (f *c19DevSnapshot) NodeInfos() fwktype.NodeInfoLister       { return f }
func (f *c19DevSnapshot) StorageInfos() fwktype.StorageInfoLister { return f }
func (f *c19DevSnapshot) IsPVCUsedByPods(key string) bool         { return false }
func (f *c19DevSnapshot) List() ([]fwktype.NodeInfo, error) {
	var out []fwktype.NodeInfo
	for _, v := range f.infos {
		out = append(out, v)
	}
	return out, nil
}
func (f *c19DevSnapshot) HavePodsWithAffinityList() ([]fwktype.NodeInfo, error) { return nil, nil }
func (f *c19DevSnapshot) HavePodsWithRequiredAntiAffinityList() ([]fwktype.NodeInfo, error) {
	return nil, nil
}
func (f *c19DevSnapshot) Get(nodeName string) (fwktype.NodeInfo, error) {
	ni, ok := f.infos[nodeName]
	if !ok {
		return nil, fmt.Errorf("unable to find node: %s", nodeName)
	}
	return ni, nil
}

type c19DevShape struct {
	name     string
	requests corev1.ResourceList
	vfHint   bool
	joint    bool
}

func c19DevQ(v int64) resource.Quantity { return *resource.NewQuantity(v, resource.DecimalSI) }

var c19DevShapes = map[string]c19DevShape{
	"W1":    {name: "W1", requests: corev1.ResourceList{apiext.ResourceGPU: c19DevQ(100)}},
	"W2":    {name: "W2", requests: corev1.ResourceList{apiext.ResourceGPU: c19DevQ(200)}},
	"F50":   {name: "F50", requests: corev1.ResourceList{apiext.ResourceGPU: c19DevQ(50)}},
	"F25":   {name: "F25", requests: corev1.ResourceList{apiext.ResourceGPU: c19DevQ(25)}},
	"M2x50": {name: "M2x50", requests: corev1.ResourceList{apiext.ResourceGPUShared: c19DevQ(2), apiext.ResourceGPUCore: c19DevQ(100), apiext.ResourceGPUMemoryRatio: c19DevQ(100)}},
	// by bytes: the memory ratio is derived by the code (fillGPUTotalMem) and must survive the annotation too
	"B4G":   {name: "B4G", requests: corev1.ResourceList{apiext.ResourceGPUCore: c19DevQ(50), apiext.ResourceGPUMemory: *resource.NewQuantity(4*c19DevGi, resource.BinarySI)}},
	"R1VF":  {name: "R1VF", requests: corev1.ResourceList{apiext.ResourceRDMA: c19DevQ(1)}, vfHint: true},
	"G50R1": {name: "G50R1", requests: corev1.ResourceList{apiext.ResourceGPU: c19DevQ(50), apiext.ResourceRDMA: c19DevQ(1)}, vfHint: true, joint: true},
}

type c19DevCfg struct {
	name    string
	gpus    int
	rdma    int
	shapes  []string
	maxPods int // surviving bound pod objects at any time
	depthQ  int
	depthT  int
	share   float64 // share of the unit's time budget, quick tier
	shareT  float64 // same, thorough tier

	cr     *schedulingv1alpha1.Device
	handle *c19DevHandle
	scorer *resourceAllocationScorer
	memo   sync.Map // state key -> *c19DevVerdict (the restart check is a pure function of the state)
	gate   c19DevGate
	nontrv *mc.DistinctSet
}

func c19DevBuildCR(cfg *c19DevCfg) *schedulingv1alpha1.Device {
	cr := &schedulingv1alpha1.Device{ObjectMeta: metav1.ObjectMeta{Name: c19DevNode, ResourceVersion: "1"}}
	for i := 0; i < cfg.gpus; i++ {
		cr.Spec.Devices = append(cr.Spec.Devices, schedulingv1alpha1.DeviceInfo{
			Type: schedulingv1alpha1.GPU, UUID: fmt.Sprintf("GPU-uuid-%d", i), Minor: ptr.To(int32(i)), Health: true,
			Resources: corev1.ResourceList{apiext.ResourceGPUCore: c19DevQ(100), apiext.ResourceGPUMemoryRatio: c19DevQ(100),
				apiext.ResourceGPUMemory: *resource.NewQuantity(8*c19DevGi, resource.BinarySI)},
			Topology: &schedulingv1alpha1.DeviceTopology{SocketID: int32(i / 2), NodeID: int32(i / 2), PCIEID: fmt.Sprint(i)},
		})
	}
	for i := 0; i < cfg.rdma; i++ {
		m := i + 1
		cr.Spec.Devices = append(cr.Spec.Devices, schedulingv1alpha1.DeviceInfo{
			Type: schedulingv1alpha1.RDMA, UUID: fmt.Sprintf("0000:%02d:00.0", m), Minor: ptr.To(int32(m)), Health: true,
			Resources: corev1.ResourceList{apiext.ResourceRDMA: c19DevQ(100)},
			Topology:  &schedulingv1alpha1.DeviceTopology{SocketID: int32(i / 2), NodeID: int32(i / 2), PCIEID: fmt.Sprint(i)},
			VFGroups: []schedulingv1alpha1.VirtualFunctionGroup{{Labels: map[string]string{"type": "general"}, VFs: []schedulingv1alpha1.VirtualFunction{
				{Minor: 0, BusID: fmt.Sprintf("0000:%02d:00.2", m)}, {Minor: 1, BusID: fmt.Sprintf("0000:%02d:00.3", m)}}}},
		})
	}
	return cr
}

func c19DevInit(cfg *c19DevCfg) {
	cfg.cr = c19DevBuildCR(cfg)
	node := &corev1.Node{ObjectMeta: metav1.ObjectMeta{Name: c19DevNode}}
	ni := framework.NewNodeInfo()
	ni.SetNode(node)
	koord := koordinatorinformers.NewSharedInformerFactory(koordfake.NewSimpleClientset(), 0)
	// the informer is never started: its indexer is filled by hand and only read through the lister (fillID)
	if err := koord.Scheduling().V1alpha1().Devices().Informer().GetIndexer().Add(cfg.cr); err != nil {
		panic(err)
	}
	cfg.handle = &c19DevHandle{snapshot: &c19DevSnapshot{infos: map[string]fwktype.NodeInfo{c19DevNode: ni}}, koord: koord,
		nominator: frameworkext.NewFakeReservationNominator()}
	v1Args := &v1schedulerconfig.DeviceShareArgs{}
	v1schedulerconfig.SetDefaults_DeviceShareArgs(v1Args)
	args := &schedulerconfig.DeviceShareArgs{}
	if err := v1schedulerconfig.Convert_v1_DeviceShareArgs_To_config_DeviceShareArgs(v1Args, args, nil); err != nil {
		panic(err)
	}
	cfg.scorer = deviceResourceStrategyTypeMap[args.ScoringStrategy.Type](args)
	cfg.nontrv = mc.NewDistinctSet()
}

// ---------------------------------------------------------------------------------------------------------------
// plain reference: what a pod holds, recorded from the value Reserve charged / PreBind wrote

type c19DevHold struct {
	T   string
	M   int
	ID  string
	Res map[string]int64
	VFs []string
}

func c19DevHoldsOf(a apiext.DeviceAllocations) []c19DevHold {
	var out []c19DevHold
	ts := make([]string, 0, len(a))
	for t := range a {
		ts = append(ts, string(t))
	}
	sort.Strings(ts)
	for _, t := range ts {
		for _, al := range a[schedulingv1alpha1.DeviceType(t)] { // slice order kept: it is part of the written value
			h := c19DevHold{T: t, M: int(al.Minor), ID: al.ID, Res: map[string]int64{}}
			for k, q := range al.Resources {
				h.Res[string(k)] = q.Value()
			}
			if al.Extension != nil {
				for _, vf := range al.Extension.VirtualFunctions {
					h.VFs = append(h.VFs, fmt.Sprintf("%s#%d", vf.BusID, vf.Minor))
				}
				if al.Extension.GPUSharedResourceTemplate != "" {
					h.VFs = append(h.VFs, "template="+al.Extension.GPUSharedResourceTemplate)
				}
			}
			out = append(out, h)
		}
	}
	return out
}

func c19DevFmtRes(r map[string]int64) string {
	ks := make([]string, 0, len(r))
	for k := range r {
		ks = append(ks, k)
	}
	sort.Strings(ks)
	var sb strings.Builder
	for _, k := range ks {
		fmt.Fprintf(&sb, "%s=%d,", strings.TrimPrefix(k, apiext.DomainPrefix), r[k])
	}
	return sb.String()
}

func c19DevFmtHolds(hs []c19DevHold) string {
	var sb strings.Builder
	for _, h := range hs {
		fmt.Fprintf(&sb, "%s/%d[id=%s]{%s}%v ", h.T, h.M, h.ID, c19DevFmtRes(h.Res), h.VFs)
	}
	return sb.String()
}

// ---------------------------------------------------------------------------------------------------------------
// canonical dump of a nodeDeviceCache: the allocation state the property names.
// Content: getAllNodeDeviceSummary (total / free / in-use per device and resource, per-pod records) + the VF sets
// (allocation state that the summary does not show). Quantities are compared by Value(): the *format* of a quantity
// (DecimalSI / BinarySI, cached string) is representation, not an amount. An entry with amount 0 is the same holding
// as an absent entry (keepZero=false); the raw form with explicit zeros is used for the BFS state key only.
// Dropped (not allocation state, pure functions of the Device CR that is delivered to both caches): deviceInfos,
// numaTopology, gpuPartitionIndexer, gpuTopologyScope, nodeHonorGPUPartition, secondaryDeviceWellPlanned.

type c19DevDump struct {
	sections map[string][]string // ledger name -> sorted lines
}

var c19DevLedgers = []string{"total", "free", "used", "records", "vf"}

func c19DevTakeDump(c *nodeDeviceCache, keepZero bool) *c19DevDump {
	d := &c19DevDump{sections: map[string][]string{}}
	add := func(sec, line string) { d.sections[sec] = append(d.sections[sec], line) }
	detail := func(sec, node string, m map[schedulingv1alpha1.DeviceType]deviceResources) {
		for t, drs := range m {
			for minor, rl := range drs {
				for k, q := range rl {
					if v := q.Value(); v != 0 || keepZero {
						add(sec, fmt.Sprintf("%s %s/%d %s=%d", node, t, minor, k, v))
					}
				}
				if keepZero && len(rl) == 0 {
					add(sec, fmt.Sprintf("%s %s/%d <empty>", node, t, minor))
				}
			}
		}
	}
	for node, sum := range c.getAllNodeDeviceSummary() {
		detail("total", node, sum.DeviceTotalDetail)
		detail("free", node, sum.DeviceFreeDetail)
		detail("used", node, sum.DeviceUsedDetail)
		for t, pods := range sum.AllocateSet {
			for pod, minors := range pods {
				n := 0
				for minor, rl := range minors {
					for k, q := range rl {
						if v := q.Value(); v != 0 || keepZero {
							add("records", fmt.Sprintf("%s %s %s/%d %s=%d", node, pod, t, minor, k, v))
							n++
						}
					}
				}
				if n == 0 && keepZero {
					add("records", fmt.Sprintf("%s %s %s <empty>", node, pod, t))
				}
			}
		}
		nd := c.getNodeDevice(node, false)
		nd.lock.RLock()
		for t, va := range nd.vfAllocations {
			if va == nil {
				continue
			}
			for minor, set := range va.allocatedVFs {
				for b := range set {
					add("vf", fmt.Sprintf("%s %s/%d %s", node, t, minor, b))
				}
			}
		}
		nd.lock.RUnlock()
	}
	for _, l := range d.sections {
		sort.Strings(l)
	}
	return d
}

func (d *c19DevDump) String() string {
	var sb strings.Builder
	for _, sec := range c19DevLedgers {
		fmt.Fprintf(&sb, "[%s] %s\n", sec, strings.Join(d.sections[sec], "; "))
	}
	return sb.String()
}

// diff returns the ledgers in which two dumps differ.
func (d *c19DevDump) diff(o *c19DevDump) []string {
	var out []string
	for _, sec := range c19DevLedgers {
		if strings.Join(d.sections[sec], ";") != strings.Join(o.sections[sec], ";") {
			out = append(out, sec)
		}
	}
	return out
}

// amount looks a figure up in a ledger ("used"/"free"/"total") of the dump.
func (d *c19DevDump) amount(sec string, h c19DevHold, res string) int64 {
	p := fmt.Sprintf("%s %s/%d %s=", c19DevNode, h.T, h.M, res)
	for _, l := range d.sections[sec] {
		if strings.HasPrefix(l, p) {
			var v int64
			fmt.Sscanf(l[len(p):], "%d", &v)
			return v
		}
	}
	return 0
}

func (d *c19DevDump) hasVF(h c19DevHold, bus string) bool {
	want := fmt.Sprintf("%s %s/%d %s", c19DevNode, h.T, h.M, bus)
	for _, l := range d.sections["vf"] {
		if l == want {
			return true
		}
	}
	return false
}

// ---------------------------------------------------------------------------------------------------------------
// the system

type c19DevPod struct {
	id         int
	shape      string
	obj        *corev1.Pod // the persisted object as the API server holds it (bound, annotated; phase per state)
	pending    *corev1.Pod // the object before PreBind/bind (old side of the informer's bind update)
	terminated bool
	seenBind   bool
	holds      []c19DevHold
}

type c19DevSys struct {
	cfg    *c19DevCfg
	ops    []c19DevOp
	res    *mc.Result
	pl     *Plugin
	next   int
	pods   []*c19DevPod
	counts map[string]int64
}

const (
	c19DevOpSchedule = iota
	c19DevOpUnreserveCycle
	c19DevOpSeesBind
	c19DevOpDelete
	c19DevOpTerminate
)

type c19DevOp struct {
	name string
	kind int
	a    int
}

func c19DevOps(cfg *c19DevCfg) []c19DevOp {
	var ops []c19DevOp
	for i, s := range cfg.shapes {
		ops = append(ops, c19DevOp{"schedule+bind(" + s + ")", c19DevOpSchedule, i})
	}
	for i, s := range cfg.shapes {
		ops = append(ops, c19DevOp{"reserve+unreserve(" + s + ")", c19DevOpUnreserveCycle, i})
	}
	for j := 0; j < cfg.maxPods; j++ {
		ops = append(ops,
			c19DevOp{fmt.Sprintf("informer-bind-update(slot%d)", j), c19DevOpSeesBind, j},
			c19DevOp{fmt.Sprintf("delete(slot%d)", j), c19DevOpDelete, j},
			c19DevOp{fmt.Sprintf("terminated=leaves-the-filtered-watch(slot%d)", j), c19DevOpTerminate, j},
		)
	}
	return ops
}

func c19DevNew(cfg *c19DevCfg, ops []c19DevOp, res *mc.Result) *c19DevSys {
	s := &c19DevSys{cfg: cfg, ops: ops, res: res}
	s.pl = &Plugin{handle: cfg.handle, nodeDeviceCache: newNodeDeviceCache(), scorer: cfg.scorer}
	s.pl.nodeDeviceCache.onDeviceAdd(cfg.cr)
	return s
}

func (s *c19DevSys) count(name string, n int64) {
	if s.counts == nil {
		s.counts = map[string]int64{}
	}
	s.counts[name] += n
}

func (s *c19DevSys) flush() {
	for k, v := range s.counts {
		s.res.Count(k, v)
	}
	s.counts = nil
}

func c19DevPodObj(id int, shape *c19DevShape) *corev1.Pod {
	pod := &corev1.Pod{
		// the name is unique per incarnation (never reused): the name-reuse race of the per-name ledger is C07's finding
		ObjectMeta: metav1.ObjectMeta{Namespace: c19DevNS, Name: fmt.Sprintf("p%d", id), UID: types.UID(fmt.Sprintf("uid-p%d", id)), ResourceVersion: "1"},
		Spec: corev1.PodSpec{Containers: []corev1.Container{{Name: "c",
			Resources: corev1.ResourceRequirements{Requests: shape.requests.DeepCopy(), Limits: shape.requests.DeepCopy()}}}},
		Status: corev1.PodStatus{Phase: corev1.PodPending},
	}
	if shape.vfHint {
		if err := apiext.SetDeviceAllocateHints(pod, apiext.DeviceAllocateHints{schedulingv1alpha1.RDMA: {VFSelector: &metav1.LabelSelector{}}}); err != nil {
			panic(err)
		}
	}
	if shape.joint {
		if err := apiext.SetDeviceJointAllocate(pod, &apiext.DeviceJointAllocate{DeviceTypes: []schedulingv1alpha1.DeviceType{schedulingv1alpha1.GPU, schedulingv1alpha1.RDMA}}); err != nil {
			panic(err)
		}
	}
	return pod
}

// reserve runs PreFilter + Reserve of the real plugin; ok=false: the pod does not fit (nothing changed).
func (s *c19DevSys) reserve(pod *corev1.Pod) (fwktype.CycleState, bool) {
	ctx := context.TODO()
	cs := framework.NewCycleState()
	if _, st := s.pl.PreFilter(ctx, cs, pod, nil); !st.IsSuccess() {
		panic(fmt.Sprintf("c19: PreFilter rejected harness pod %s: %v", pod.Name, st))
	}
	schedulingphase.RecordPhase(cs, schedulingphase.Reserve) // as the framework extender does before Reserve
	if st := s.pl.Reserve(ctx, cs, pod, c19DevNode); !st.IsSuccess() {
		return nil, false
	}
	return cs, true
}

func (s *c19DevSys) schedule(shapeIdx int, check bool) (bool, []mc.Violation) {
	if len(s.pods) >= s.cfg.maxPods {
		return false, nil
	}
	shape := c19DevShapes[s.cfg.shapes[shapeIdx]]
	pending := c19DevPodObj(s.next, &shape)
	cs, ok := s.reserve(pending)
	if !ok {
		return false, nil
	}
	s.next++
	// the framework runs PreBind on a copy, patches the difference and binds: the persisted object is the copy + nodeName
	bound := pending.DeepCopy()
	if st := s.pl.PreBind(context.TODO(), cs, bound, c19DevNode); !st.IsSuccess() {
		panic(fmt.Sprintf("c19: PreBind failed: %v", st))
	}
	bound.Spec.NodeName = c19DevNode
	bound.ResourceVersion = "3"
	bound.Status.Phase = corev1.PodRunning
	st, _ := getPreFilterState(cs)
	written := c19DevHoldsOf(st.allocationResult)
	p := &c19DevPod{id: s.next - 1, shape: shape.name, obj: bound, pending: pending, holds: written}
	s.pods = append(s.pods, p)
	var viol []mc.Violation
	if check {
		s.count("binds", 1)
		if len(written) > 1 {
			s.count("binds_multi_device", 1)
		}
		for _, h := range written {
			if len(h.VFs) > 0 {
				s.count("binds_with_vf", 1)
				break
			}
		}
		// read-back clause: the annotation parses back to exactly the value that was written
		got, err := apiext.GetDeviceAllocations(bound.Annotations)
		if err != nil {
			viol = append(viol, mc.Violation{Key: "C19|dev|readback-differs|parse-error|" + shape.name, What: fmt.Sprintf("annotation %q does not parse: %v", bound.Annotations[apiext.AnnotationDeviceAllocated], err)})
		} else if g, w := c19DevFmtHolds(c19DevHoldsOf(got)), c19DevFmtHolds(written); g != w {
			viol = append(viol, mc.Violation{Key: "C19|dev|readback-differs|value|" + shape.name, What: fmt.Sprintf("shape %s: PreBind wrote %s but the annotation %q reads back as %s", shape.name, w, bound.Annotations[apiext.AnnotationDeviceAllocated], g)})
		} else {
			s.count("readback_equal", 1)
		}
	}
	return true, viol
}

// seeBind: the informer delivers the scheduler's own writes: the PreBind patch, then the binding
func (s *c19DevSys) seeBind(p *c19DevPod) {
	if p.seenBind {
		return
	}
	patched := p.obj.DeepCopy()
	patched.Spec.NodeName, patched.ResourceVersion, patched.Status.Phase = "", "2", corev1.PodPending
	s.pl.nodeDeviceCache.onPodUpdate(p.pending, patched)
	s.pl.nodeDeviceCache.onPodUpdate(patched, p.obj)
	p.seenBind = true
}

func (s *c19DevSys) Apply(opi int, check bool) (bool, []mc.Violation) {
	op := s.ops[opi]
	switch op.kind {
	case c19DevOpSchedule:
		return s.schedule(op.a, check)
	case c19DevOpUnreserveCycle:
		shape := c19DevShapes[s.cfg.shapes[op.a]]
		pod := c19DevPodObj(s.next, &shape)
		cs, ok := s.reserve(pod)
		if !ok {
			return false, nil
		}
		s.next++
		s.pl.Unreserve(context.TODO(), cs, pod, c19DevNode)
		if check {
			s.count("reserve_unreserve_cycles", 1)
		}
		return true, nil
	}
	if op.a >= len(s.pods) {
		return false, nil
	}
	p := s.pods[op.a]
	c := s.pl.nodeDeviceCache
	switch op.kind {
	case c19DevOpSeesBind:
		if p.seenBind {
			return false, nil
		}
		s.seeBind(p)
	case c19DevOpDelete:
		s.seeBind(p) // events of one object are ordered: the bind updates precede the delete
		c.onPodDelete(p.obj)
		s.pods = append(append([]*c19DevPod{}, s.pods[:op.a]...), s.pods[op.a+1:]...)
		if check {
			s.count("pod_deletes", 1)
		}
	case c19DevOpTerminate:
		// the scheduler's pod informer filters on status.phase != Succeeded/Failed (kube-scheduler's newPodInformer, which
		// koord-scheduler keeps): a pod that terminates leaves the watch, i.e. it is delivered as a DELETE carrying the
		// terminated object, and it is not listed after a restart
		s.seeBind(p)
		done := p.obj.DeepCopy()
		done.Status.Phase, done.ResourceVersion = corev1.PodSucceeded, "4"
		c.onPodDelete(done)
		s.pods = append(append([]*c19DevPod{}, s.pods[:op.a]...), s.pods[op.a+1:]...)
		if check {
			s.count("pod_terminations", 1)
		}
	}
	return true, nil
}

// ---------------------------------------------------------------------------------------------------------------
// restart check

type c19DevVerdict struct {
	viol   []mc.Violation
	counts map[string]int64
}

// c19DevGate keeps the witness list short (the engine re-executes every reported witness): per violation key only the
// first 4 distinct states report; everything beyond is counted. Re-executions reach the same state and pass again.
type c19DevGate struct {
	mu       sync.Mutex
	admitted map[string]map[string]bool
}

func (g *c19DevGate) admit(vkey, state string) bool {
	g.mu.Lock()
	defer g.mu.Unlock()
	if g.admitted == nil {
		g.admitted = map[string]map[string]bool{}
	}
	m := g.admitted[vkey]
	if m == nil {
		m = map[string]bool{}
		g.admitted[vkey] = m
	}
	if m[state] {
		return true
	}
	if len(m) < 4 {
		m[state] = true
		return true
	}
	return false
}

type c19DevEvent struct {
	kind string // add | dup-add | same-update
	obj  int    // index into objects; 0 = the Device CR, i>0 = pod i-1
}

func (s *c19DevSys) deliver(c *nodeDeviceCache, ev c19DevEvent) {
	if ev.obj == 0 {
		cr := s.cfg.cr
		switch ev.kind {
		case "add", "dup-add":
			c.onDeviceAdd(cr)
		case "same-update":
			n := cr.DeepCopy()
			n.ResourceVersion = "2"
			c.onDeviceUpdate(cr, n)
		}
		return
	}
	pod := s.pods[ev.obj-1].obj
	switch ev.kind {
	case "add", "dup-add":
		c.onPodAdd(pod)
	case "same-update":
		// any later write to the pod that leaves the allocation alone (status, labels): new resourceVersion, same annotation
		n := pod.DeepCopy()
		n.ResourceVersion = "9"
		if n.Labels == nil {
			n.Labels = map[string]string{}
		}
		n.Labels["c19/touched"] = "true"
		c.onPodUpdate(pod, n)
	case "prebind-then-bound":
		// the cut lies between PreBind's patch and the moment the binding becomes visible: first the still pending pod that
		// already carries the persisted allocation, then the update that only sets spec.nodeName
		pend := pod.DeepCopy()
		pend.Spec.NodeName = ""
		pend.ResourceVersion = "1"
		c.onPodAdd(pend)
		c.onPodUpdate(pend, pod)
	}
}

func (s *c19DevSys) evName(ev c19DevEvent) string {
	if ev.obj == 0 {
		return ev.kind + "(device-cr)"
	}
	return fmt.Sprintf("%s(p%d)", ev.kind, s.pods[ev.obj-1].id)
}

// restartCheck enumerates every delivery of the persisted objects into a fresh cache and judges each one.
func (s *c19DevSys) restartCheck() *c19DevVerdict {
	v := &c19DevVerdict{counts: map[string]int64{}}
	live := c19DevTakeDump(s.pl.nodeDeviceCache, false)
	liveS := live.String()
	n := 1 + len(s.pods)
	holding := 0
	for _, p := range s.pods {
		if !p.terminated {
			holding++
		}
	}
	if holding > 0 {
		v.counts["states_with_surviving_bound_pods"]++
	}
	if holding >= 2 {
		v.counts["states_with_2+_surviving_bound_pods"]++
	}
	// sanity of the live side against the plain reference (a failure here is C07's business: diagnostic only)
	if bad := s.heldNotFree(live); len(bad) > 0 {
		s.res.Diag("NOT judged here (C07): the LIVE cache already disagrees with what the bound pods hold: " + strings.Join(bad, "; "))
	}
	seenKeys := map[string]bool{}
	judge := func(seq []c19DevEvent, variant string) {
		c := newNodeDeviceCache()
		for _, ev := range seq {
			s.deliver(c, ev)
		}
		v.counts["rebuilds"]++
		v.counts["rebuilds_"+variant]++
		order := "device-first"
		for _, ev := range seq {
			if ev.kind == "add" {
				if ev.obj != 0 {
					order = "pod-before-device"
				}
				break
			}
		}
		if order == "pod-before-device" && holding > 0 {
			v.counts["rebuilds_pod_before_device"]++
		}
		names := func() []string {
			out := make([]string, len(seq))
			for i, ev := range seq {
				out[i] = s.evName(ev)
			}
			return out
		}
		got := c19DevTakeDump(c, false)
		if gs := got.String(); gs != liveS {
			for _, ledger := range live.diff(got) {
				key := fmt.Sprintf("C19|dev|rebuilt-differs|%s|%s|%s", ledger, order, variant)
				if !seenKeys[key] {
					seenKeys[key] = true
					v.viol = append(v.viol, mc.Violation{Key: key, What: fmt.Sprintf("delivery %v into a fresh cache gives\n%s--- but the scheduler that made the allocations held\n%s(surviving pods: %s)", names(), gs, liveS, s.podsString())})
				}
			}
		} else if holding > 0 {
			v.counts["equal_dumps_nontrivial"]++
		}
		if holding > 0 {
			v.counts["corollary_checked"]++
			if bad := s.heldNotFree(got); len(bad) > 0 {
				cls := "share"
				if strings.Contains(bad[0], "VF ") {
					cls = "vf"
				}
				key := fmt.Sprintf("C19|dev|held-considered-free|%s|%s|%s", cls, order, variant)
				if !seenKeys[key] {
					seenKeys[key] = true
					v.viol = append(v.viol, mc.Violation{Key: key, What: fmt.Sprintf("after delivery %v into a fresh cache: %s (surviving pods: %s)", names(), strings.Join(bad, "; "), s.podsString())})
				}
			}
		}
	}
	mc.Permutations(n, func(perm []int) {
		v.counts["delivery_permutations"]++
		base := make([]c19DevEvent, n)
		for i, o := range perm {
			base[i] = c19DevEvent{"add", o}
		}
		judge(base, "plain")
		for pos, o := range perm {
			for _, kind := range []string{"dup-add", "same-update"} {
				variant := kind + "-pod"
				if o == 0 {
					variant = kind + "-device"
				}
				// directly after the object's own add, and after everything else
				after := append(append(append([]c19DevEvent{}, base[:pos+1]...), c19DevEvent{kind, o}), base[pos+1:]...)
				judge(after, variant)
				if pos != n-1 {
					judge(append(append([]c19DevEvent{}, base...), c19DevEvent{kind, o}), variant)
				}
			}
			if o != 0 && s.pods[o-1].obj.Spec.NodeName != "" {
				two := append([]c19DevEvent{}, base...)
				two[pos] = c19DevEvent{"prebind-then-bound", o}
				judge(two, "prebind-then-bound-pod")
			}
		}
	})
	return v
}

// heldNotFree: the explicit corollary, from the plain reference (what the surviving bound pods hold): every held amount
// is in use and not free, every held VF is marked allocated, in the given dump.
func (s *c19DevSys) heldNotFree(d *c19DevDump) []string {
	type cell struct {
		h   c19DevHold
		res string
	}
	sum := map[string]int64{}
	cells := map[string]cell{}
	var bad []string
	for _, p := range s.pods {
		if p.terminated {
			continue
		}
		for _, h := range p.holds {
			for r, a := range h.Res {
				if a <= 0 {
					continue
				}
				k := fmt.Sprintf("%s/%d %s", h.T, h.M, r)
				sum[k] += a
				cells[k] = cell{h, r}
			}
			for _, vf := range h.VFs {
				bus := strings.SplitN(vf, "#", 2)[0]
				if !d.hasVF(h, bus) {
					bad = append(bad, fmt.Sprintf("VF %s of %s/%d is held by p%d but not marked allocated", bus, h.T, h.M, p.id))
				}
			}
		}
	}
	ks := make([]string, 0, len(sum))
	for k := range sum {
		ks = append(ks, k)
	}
	sort.Strings(ks)
	for _, k := range ks {
		c := cells[k]
		used, free, total := d.amount("used", c.h, c.res), d.amount("free", c.h, c.res), d.amount("total", c.h, c.res)
		if used < sum[k] {
			bad = append(bad, fmt.Sprintf("%s: bound pods hold %d but only %d is in use", k, sum[k], used))
		}
		if total >= sum[k] && free > total-sum[k] {
			bad = append(bad, fmt.Sprintf("%s: bound pods hold %d of %d but %d is considered free", k, sum[k], total, free))
		}
	}
	return bad
}

func (s *c19DevSys) podsString() string {
	var sb strings.Builder
	for _, p := range s.pods {
		fmt.Fprintf(&sb, "p%d(%s,terminated=%v): %s| ", p.id, p.shape, p.terminated, c19DevFmtHolds(p.holds))
	}
	return sb.String()
}

func (s *c19DevSys) Invariants() []mc.Violation {
	key := s.Key()
	var v *c19DevVerdict
	if m, ok := s.cfg.memo.Load(key); ok {
		v = m.(*c19DevVerdict)
		s.count("restart_checks_answered_from_memo", 1)
	} else {
		v = s.restartCheck()
		if _, loaded := s.cfg.memo.LoadOrStore(key, v); !loaded {
			for k, n := range v.counts {
				s.count(k, n)
			}
			s.count("restart_checks", 1)
			if v.counts["states_with_surviving_bound_pods"] > 0 {
				s.cfg.nontrv.Add(key)
			}
		}
	}
	var out []mc.Violation
	for _, x := range v.viol {
		if s.cfg.gate.admit(x.Key, key) {
			out = append(out, x)
		} else {
			s.count("violations_beyond_4_witness_states_per_key__counted_only", 1)
		}
	}
	s.flush()
	return out
}

// Key: the raw live ledgers (explicit zero entries kept: they steer IsZero / len()==0 branches of the code) plus the
// surviving objects and the reference (they decide enabledness and the verdict).
func (s *c19DevSys) Key() string {
	var sb strings.Builder
	for _, p := range s.pods {
		fmt.Fprintf(&sb, "p%d:%s:t%v:b%v:%s|", p.id, p.shape, p.terminated, p.seenBind, p.obj.Annotations[apiext.AnnotationDeviceAllocated])
	}
	sb.WriteString(c19DevTakeDump(s.pl.nodeDeviceCache, true).String())
	return sb.String()
}

// ---------------------------------------------------------------------------------------------------------------

func c19DevCfgs() []*c19DevCfg {
	return []*c19DevCfg{
		{name: "dev-gpu3", gpus: 3, shapes: []string{"W1", "W2", "F50", "F25", "B4G"}, maxPods: 3, depthQ: 4, depthT: 5, share: 0.7, shareT: 0.4},
		{name: "dev-gpu2-rdma1-vf", gpus: 2, rdma: 1, shapes: []string{"W1", "F50", "M2x50", "R1VF", "G50R1"}, maxPods: 4, depthQ: 3, depthT: 5, share: 0.3, shareT: 0.6},
	}
}

func TestVerifC19Dev(t *testing.T) {
	env := mc.LoadEnv()
	cfgs := c19DevCfgs()
	for ci, cfg := range cfgs {
		cfg := cfg
		c19DevInit(cfg)
		ops := c19DevOps(cfg)
		res := mc.NewResult("C19", cfg.name, "bfs")
		// per-part share of what is left of the unit's budget (time a part does not use flows to the later one)
		shareOf := func(c *c19DevCfg) float64 {
			if env.Thorough() {
				return c.shareT
			}
			return c.share
		}
		rest := 0.0
		for _, c := range cfgs[ci:] {
			rest += shareOf(c)
		}
		penv := mc.LoadEnv()
		penv.Budget = time.Duration(float64(env.Budget-env.Elapsed()) * shareOf(cfg) / rest)
		if penv.Budget < time.Second {
			penv.Budget = time.Second
		}
		b := &mc.BFS{Res: res, Env: penv, New: func() mc.System { return c19DevNew(cfg, ops, res) }, NumOps: len(ops),
			OpName: func(i int) string { return ops[i].name }, MaxDepth: env.Pick(cfg.depthQ, cfg.depthT), Repeats: 1}
		t0 := time.Now()
		b.Run()
		res.WallS = time.Since(t0).Seconds()
		var names []string
		for _, o := range ops {
			names = append(names, o.name)
		}
		res.Rule = fmt.Sprintf("live histories: every sequence up to the depth over %v on the real deviceshare Plugin (PreFilter, Reserve, PreBind, Unreserve) and nodeDeviceCache handlers, node with %d GPU(s) and %d RDMA device(s) with 2 VFs; "+
			"every reached state is cut there and the persisted objects (Device CR + <= %d surviving bound pod objects with their device-allocated annotation) are replayed into a fresh nodeDeviceCache in EVERY permutation; "+
			"per permutation additionally, for every object, one duplicate add and one update carrying the same allocation, each placed directly after the object's add and after all adds; "+
			"a state is distinct when the live ledgers (raw) or the surviving objects differ; non-trivial = at least one surviving bound pod", names, cfg.gpus, cfg.rdma, cfg.maxPods)
		res.Assumptions = []string{
			"a schedule op runs the cycle through bind (cut points between Reserve and bind are not judged: nothing is persisted yet); pod names are unique per incarnation (name reuse is C07's known finding)",
			"the persisted pod object is the pod the scheduler saw + the annotations PreBind wrote + spec.nodeName; the Device CR does not change across the restart",
			"delivery orders: pods and the Device CR come from different informers (main factory / koordinator factory, both started in the same step of cmd/koord-scheduler/app/server.go), so every relative order is producible; a duplicate add and a same-allocation update are named by the property's quantifier",
			"no reservations holding devices, no preemption, no GPU partition tables / shared-resource templates",
		}
		if res.Bounds == nil {
			res.Bounds = map[string]any{}
		}
		res.Bounds["surviving_pod_objects_max"] = cfg.maxPods
		res.Evaluations += res.Counters["rebuilds"]
		res.Distinct = cfg.nontrv.Len()
		for _, need := range []string{"binds", "readback_equal", "states_with_surviving_bound_pods", "states_with_2+_surviving_bound_pods",
			"rebuilds_plain", "rebuilds_dup-add-pod", "rebuilds_same-update-pod", "rebuilds_prebind-then-bound-pod", "rebuilds_dup-add-device", "rebuilds_same-update-device", "rebuilds_pod_before_device",
			"corollary_checked", "pod_deletes", "pod_terminations", "reserve_unreserve_cycles", "binds_multi_device"} {
			if res.Counters[need] == 0 {
				res.Diag("VACUOUS: counter " + need + " stayed 0 in part " + cfg.name)
				fmt.Printf("C19 WARNING: counter %s stayed 0 in part %s\n", need, cfg.name)
			}
		}
		if cfg.rdma > 0 && res.Counters["binds_with_vf"] == 0 {
			res.Diag("VACUOUS: counter binds_with_vf stayed 0 in part " + cfg.name)
		}
		env.Emit(res)
	}
}
