package core

// C19 "Scheduler allocation state survives a restart unchanged" - part quota (elasticquota GroupQuotaManager).
//
// Live path: the REAL GroupQuotaManager driven through the entry points the plugin's handlers call: quotas by
// UpdateQuota events, pods by OnPodAdd (pending), ReservePod (plugin Reserve), the informer's bind update
// (OnPodUpdate), UnreservePod, termination update, OnPodDelete. What is persisted at bind time for the quota ledger is
// the bound pod itself (spec.nodeName + its quota label); BFS over such histories, every reached state is a cut point.
// Restart path: a FRESH manager fed ONLY the persisted objects: the quota objects the way the plugin loads them at
// start-up (ReplaceQuotas: UpdateQuotaInfo for every quota in map order + ResetQuota) and, separately, as add events
// (UpdateQuota), in every order; then every surviving pod object through OnPodAdd (the fail-over branch marks a bound
// pod assigned and charges used) in EVERY permutation, per permutation additionally one duplicate add and one update
// carrying the same pod. Oracle: canonical dump of the live manager (used / request figures of every group incl. root,
// pod cache with the assigned flag) == dump of the rebuilt manager for every delivery; explicitly: what a surviving
// bound pod uses is charged as used to its group and every ancestor after the rebuild.

import (
	"fmt"
	"sort"
	"strings"
	"sync"
	"testing"
	"time"

	corev1 "k8s.io/api/core/v1"
	"k8s.io/apimachinery/pkg/api/resource"
	metav1 "k8s.io/apimachinery/pkg/apis/meta/v1"
	"k8s.io/apimachinery/pkg/types"

	"github.com/koordinator-sh/koordinator/apis/extension"
	"github.com/koordinator-sh/koordinator/apis/thirdparty/scheduler-plugins/pkg/apis/scheduling/v1alpha1"
	"github.com/koordinator-sh/koordinator/pkg/zzverif/mc"
)

const c19QGi = int64(1) << 30

type c19QVec [2]int64 // cpu milli, memory bytes

func (v c19QVec) add(o c19QVec) c19QVec { return c19QVec{v[0] + o[0], v[1] + o[1]} }
func (v c19QVec) le(o c19QVec) bool     { return v[0] <= o[0] && v[1] <= o[1] }

func c19QRL(v c19QVec) corev1.ResourceList {
	return corev1.ResourceList{
		corev1.ResourceCPU:    *resource.NewMilliQuantity(v[0], resource.DecimalSI),
		corev1.ResourceMemory: *resource.NewQuantity(v[1], resource.BinarySI),
	}
}

type c19QSpec struct {
	name     string
	parent   string
	isParent bool
	lend     bool
	max, min c19QVec
}

func (q *c19QSpec) obj() *v1alpha1.ElasticQuota {
	return &v1alpha1.ElasticQuota{
		ObjectMeta: metav1.ObjectMeta{Name: q.name, Namespace: "ns", ResourceVersion: "1", Annotations: map[string]string{}, Labels: map[string]string{
			extension.LabelQuotaParent: q.parent, extension.LabelQuotaIsParent: fmt.Sprint(q.isParent), extension.LabelAllowLentResource: fmt.Sprint(q.lend)}},
		Spec: v1alpha1.ElasticQuotaSpec{Max: c19QRL(q.max), Min: c19QRL(q.min)},
	}
}

type c19QShape struct {
	name  string
	quota string
	req   c19QVec
	np    bool // non-preemptible
	pend  bool // also offered as "created and left pending"
}

func c19QPodObj(id int, sh *c19QShape) *corev1.Pod {
	p := &corev1.Pod{
		ObjectMeta: metav1.ObjectMeta{Name: fmt.Sprintf("p%d", id), Namespace: "ns", UID: types.UID(fmt.Sprintf("uid-p%d", id)), ResourceVersion: "1",
			Labels: map[string]string{extension.LabelQuotaName: sh.quota}},
		Spec:   corev1.PodSpec{Containers: []corev1.Container{{Name: "c", Resources: corev1.ResourceRequirements{Requests: c19QRL(sh.req)}}}},
		Status: corev1.PodStatus{Phase: corev1.PodPending},
	}
	if sh.np {
		p.Labels[extension.LabelPreemptible] = "false"
	}
	return p
}

type c19QCfg struct {
	name    string
	quotas  []c19QSpec // parents before children
	shapes  []c19QShape
	maxPods int
	depthQ  int
	depthT  int

	thorough bool
	memo     sync.Map
	gate     c19QGate
	nontrv   *mc.DistinctSet
}

func (cfg *c19QCfg) spec(name string) *c19QSpec {
	for i := range cfg.quotas {
		if cfg.quotas[i].name == name {
			return &cfg.quotas[i]
		}
	}
	return nil
}

var c19QNode = &corev1.Node{ObjectMeta: metav1.ObjectMeta{Name: "n1"}, Status: corev1.NodeStatus{Allocatable: c19QRL(c19QVec{32000, 64 * c19QGi})}}

func c19QNewGQM() *GroupQuotaManager {
	huge := c19QRL(c19QVec{1 << 40, 1 << 50})
	gqm := NewGroupQuotaManager("", false, huge, huge)
	gqm.OnNodeAdd(c19QNode)
	return gqm
}

// ---------------------------------------------------------------------------------------------------------------
// canonical dump of a GroupQuotaManager: the quota assignment state the property names.
// Per group (every group of GetQuotaSummaries, plus the root): parent / isParent / lend / max / min (configuration as
// loaded), used, non-preemptible used, request, non-preemptible request, child request, the self figures, and the pod
// cache (pod -> assigned flag, charged amount). Amounts by milli value; an explicit 0 equals an absent entry.
// Dropped, each not allocation state: RuntimeVersion (monotone version stamp, only compared for equality by the lazy
// runtime refresh), Runtime / AutoScaleMin / Allocated / Guaranteed (computed lazily by RefreshRuntime from request /
// min / max / cluster total - C02's subject; refreshing it here would change the live manager), SharedWeight
// (configuration, defaults to max).

type c19QDump struct {
	groups map[string]string
	pods   map[string]string
	sums   map[string]*QuotaInfoSummary
}

func c19QFmtRL(rl corev1.ResourceList) string {
	ks := make([]string, 0, len(rl))
	for k := range rl {
		ks = append(ks, string(k))
	}
	sort.Strings(ks)
	var sb strings.Builder
	for _, k := range ks {
		q := rl[corev1.ResourceName(k)]
		if v := q.MilliValue(); v != 0 {
			fmt.Fprintf(&sb, "%s=%d,", k, v)
		}
	}
	return sb.String()
}

func c19QTakeDump(gqm *GroupQuotaManager) *c19QDump {
	d := &c19QDump{groups: map[string]string{}, pods: map[string]string{}, sums: gqm.GetQuotaSummaries(true)}
	for g, sm := range d.sums {
		d.groups[g] = fmt.Sprintf("parent=%s isParent=%v lend=%v max{%s} min{%s} used{%s} npUsed{%s} request{%s} npRequest{%s} childRequest{%s} selfUsed{%s} selfNpUsed{%s} selfRequest{%s} selfNpRequest{%s}",
			sm.ParentName, sm.IsParent, sm.AllowLentResource, c19QFmtRL(sm.Max), c19QFmtRL(sm.Min), c19QFmtRL(sm.Used), c19QFmtRL(sm.NonPreemptibleUsed), c19QFmtRL(sm.Request), c19QFmtRL(sm.NonPreemptibleRequest),
			c19QFmtRL(sm.ChildRequest), c19QFmtRL(sm.SelfUsed), c19QFmtRL(sm.SelfNonPreemptibleUsed), c19QFmtRL(sm.SelfRequest), c19QFmtRL(sm.SelfNonPreemptibleRequest))
		for pod, pi := range sm.PodCache {
			d.pods[g+" <- "+pod] = fmt.Sprintf("assigned=%v charged{%s}", pi.IsAssigned, c19QFmtRL(pi.Resource))
		}
	}
	root := gqm.GetQuotaInfoByName(extension.RootQuotaName)
	d.groups[extension.RootQuotaName] = fmt.Sprintf("used{%s} npUsed{%s} request{%s} npRequest{%s}", c19QFmtRL(root.GetUsed()), c19QFmtRL(root.GetNonPreemptibleUsed()), c19QFmtRL(root.GetRequest()), c19QFmtRL(root.GetNonPreemptibleRequest()))
	return d
}

func c19QSorted(m map[string]string) []string {
	out := make([]string, 0, len(m))
	for k, v := range m {
		out = append(out, k+": "+v)
	}
	sort.Strings(out)
	return out
}

func (d *c19QDump) String() string {
	return "[groups]\n  " + strings.Join(c19QSorted(d.groups), "\n  ") + "\n[pod cache]\n  " + strings.Join(c19QSorted(d.pods), "\n  ") + "\n"
}

// diff names what differs: "group:<role>" / "pod-cache".
func (d *c19QDump) diff(o *c19QDump, cfg *c19QCfg) []string {
	set := map[string]bool{}
	for g := range d.groups {
		if d.groups[g] != o.groups[g] {
			set["figures:"+c19QRole(cfg, g)] = true
		}
	}
	for g := range o.groups {
		if _, ok := d.groups[g]; !ok {
			set["figures:"+c19QRole(cfg, g)] = true
		}
	}
	if strings.Join(c19QSorted(d.pods), ";") != strings.Join(c19QSorted(o.pods), ";") {
		set["pod-cache"] = true
	}
	out := make([]string, 0, len(set))
	for k := range set {
		out = append(out, k)
	}
	sort.Strings(out)
	return out
}

func c19QRole(cfg *c19QCfg, g string) string {
	switch g {
	case extension.RootQuotaName:
		return "root"
	case extension.DefaultQuotaName:
		return "default"
	case extension.SystemQuotaName:
		return "system"
	}
	if q := cfg.spec(g); q != nil && q.isParent {
		return "parent"
	}
	return "leaf"
}

// ---------------------------------------------------------------------------------------------------------------
// the system

type c19QPod struct {
	id         int
	shape      *c19QShape
	obj        *corev1.Pod // the persisted object
	pending    *corev1.Pod
	bound      bool
	terminated bool
	seenBind   bool
}

type c19QSys struct {
	cfg    *c19QCfg
	ops    []c19QOp
	res    *mc.Result
	gqm    *GroupQuotaManager
	pods   []*c19QPod
	next   int
	counts map[string]int64
}

const (
	c19QOpCreate = iota
	c19QOpSchedule
	c19QOpBind
	c19QOpUnreserveCycle
	c19QOpSeesBind
	c19QOpDelete
	c19QOpTerminate
)

type c19QOp struct {
	name string
	kind int
	a    int
}

func c19QOps(cfg *c19QCfg) []c19QOp {
	var ops []c19QOp
	for i, sh := range cfg.shapes {
		ops = append(ops, c19QOp{"pod-created+reserve+bind(" + sh.name + ")", c19QOpSchedule, i})
		if sh.pend {
			ops = append(ops, c19QOp{"pod-created-pending(" + sh.name + ")", c19QOpCreate, i})
		}
	}
	for j := 0; j < cfg.maxPods; j++ {
		ops = append(ops,
			c19QOp{fmt.Sprintf("reserve+bind(slot%d)", j), c19QOpBind, j},
			c19QOp{fmt.Sprintf("reserve+unreserve(slot%d)", j), c19QOpUnreserveCycle, j},
			c19QOp{fmt.Sprintf("informer-bind-update(slot%d)", j), c19QOpSeesBind, j},
			c19QOp{fmt.Sprintf("delete(slot%d)", j), c19QOpDelete, j},
			c19QOp{fmt.Sprintf("terminated=leaves-the-filtered-watch(slot%d)", j), c19QOpTerminate, j},
		)
	}
	return ops
}

func c19QNew(cfg *c19QCfg, ops []c19QOp, res *mc.Result) *c19QSys {
	s := &c19QSys{cfg: cfg, ops: ops, res: res, gqm: c19QNewGQM()}
	for i := range cfg.quotas {
		if err := s.gqm.UpdateQuota(cfg.quotas[i].obj()); err != nil {
			panic(err)
		}
	}
	return s
}

func (s *c19QSys) count(name string, n int64) {
	if s.counts == nil {
		s.counts = map[string]int64{}
	}
	s.counts[name] += n
}

func (s *c19QSys) flush() {
	for k, v := range s.counts {
		s.res.Count(k, v)
	}
	s.counts = nil
}

// usedIn: plain reference: what the surviving bound, not terminated pods of the subtree of g use
func (s *c19QSys) usedIn(g string) (c19QVec, int) {
	var v c19QVec
	n := 0
	for _, p := range s.pods {
		if !p.bound || p.terminated {
			continue
		}
		for q := p.shape.quota; q != ""; {
			if q == g {
				v = v.add(p.shape.req)
				n++
				break
			}
			if sp := s.cfg.spec(q); sp != nil && sp.parent != extension.RootQuotaName {
				q = sp.parent
			} else {
				q = ""
			}
		}
	}
	return v, n
}

// admissible: the admission step the harness does not run (C03): used + request stays within max on the whole path
func (s *c19QSys) admissible(sh *c19QShape) bool {
	for q := sh.quota; q != ""; {
		sp := s.cfg.spec(q)
		if sp == nil {
			return true // default quota: unlimited here
		}
		u, _ := s.usedIn(q)
		if !u.add(sh.req).le(sp.max) {
			return false
		}
		if sp.parent == extension.RootQuotaName {
			break
		}
		q = sp.parent
	}
	return true
}

// bind: plugin Reserve (ReservePod) and the binding: the persisted object is the pod + spec.nodeName
func (s *c19QSys) bind(p *c19QPod, check bool) {
	s.gqm.ReservePod(p.shape.quota, p.pending)
	bound := p.pending.DeepCopy()
	bound.Spec.NodeName, bound.ResourceVersion, bound.Status.Phase = "n1", "2", corev1.PodRunning
	p.obj, p.bound = bound, true
	if check {
		s.count("binds", 1)
		if p.shape.np {
			s.count("binds_non_preemptible", 1)
		}
	}
}

func (s *c19QSys) seeBind(p *c19QPod) {
	if p.bound && !p.seenBind {
		s.gqm.OnPodUpdate(p.shape.quota, p.shape.quota, p.obj, p.pending)
		p.seenBind = true
	}
}

func (s *c19QSys) Apply(opi int, check bool) (bool, []mc.Violation) {
	op := s.ops[opi]
	if op.kind == c19QOpCreate || op.kind == c19QOpSchedule {
		sh := &s.cfg.shapes[op.a]
		if len(s.pods) >= s.cfg.maxPods || (op.kind == c19QOpSchedule && !s.admissible(sh)) {
			return false, nil
		}
		pod := c19QPodObj(s.next, sh)
		s.next++
		s.gqm.OnPodAdd(sh.quota, pod)
		p := &c19QPod{id: s.next - 1, shape: sh, obj: pod, pending: pod}
		s.pods = append(s.pods, p)
		if op.kind == c19QOpSchedule {
			s.bind(p, check)
		}
		return true, nil
	}
	if op.a >= len(s.pods) {
		return false, nil
	}
	p := s.pods[op.a]
	q := p.shape.quota
	switch op.kind {
	case c19QOpBind, c19QOpUnreserveCycle:
		if p.bound || !s.admissible(p.shape) {
			return false, nil
		}
		if op.kind == c19QOpUnreserveCycle {
			s.gqm.ReservePod(q, p.pending)
			s.gqm.UnreservePod(q, p.pending)
			if check {
				s.count("reserve_unreserve_cycles", 1)
			}
			return true, nil
		}
		s.bind(p, check)
	case c19QOpSeesBind:
		if !p.bound || p.seenBind || p.terminated {
			return false, nil
		}
		s.seeBind(p)
	case c19QOpDelete:
		s.seeBind(p) // events of one object are ordered: the bind update precedes the delete
		s.gqm.OnPodDelete(q, p.obj)
		s.pods = append(append([]*c19QPod{}, s.pods[:op.a]...), s.pods[op.a+1:]...)
		if check {
			s.count("pod_deletes", 1)
		}
	case c19QOpTerminate:
		// the scheduler's pod informer filters on status.phase != Succeeded/Failed (kube-scheduler's newPodInformer, which
		// koord-scheduler keeps): a pod that terminates leaves the watch, i.e. it is delivered as a DELETE carrying the
		// terminated object, and it is not listed after a restart
		if !p.bound {
			return false, nil
		}
		s.seeBind(p)
		done := p.obj.DeepCopy()
		done.Status.Phase, done.ResourceVersion = corev1.PodSucceeded, "3"
		s.gqm.OnPodDelete(q, done)
		s.pods = append(append([]*c19QPod{}, s.pods[:op.a]...), s.pods[op.a+1:]...)
		if check {
			s.count("pod_terminations", 1)
		}
	}
	return true, nil
}

// ---------------------------------------------------------------------------------------------------------------
// restart check

type c19QVerdict struct {
	viol   []mc.Violation
	counts map[string]int64
}

type c19QGate struct {
	mu       sync.Mutex
	admitted map[string]map[string]bool
}

// admit: per violation key only the first 4 distinct states report (the engine re-executes every witness); the rest
// is counted. Re-executions reach the same state and pass again.
func (g *c19QGate) admit(vkey, state string) bool {
	g.mu.Lock()
	defer g.mu.Unlock()
	if g.admitted == nil {
		g.admitted = map[string]map[string]bool{}
	}
	m := g.admitted[vkey]
	if m == nil {
		m = map[string]bool{}
		g.admitted[vkey] = m
	}
	if m[state] {
		return true
	}
	if len(m) < 4 {
		m[state] = true
		return true
	}
	return false
}

type c19QEvent struct {
	kind string // add | dup-add | same-update
	pod  int
}

// load feeds the quota objects into a fresh manager. mode "replace": what Plugin.ReplaceQuotas does at start-up
// (UpdateQuotaInfo for every object in map order, then ResetQuota); mode "events": add events (UpdateQuota).
func (s *c19QSys) load(mode string, order []int) *GroupQuotaManager {
	gqm := c19QNewGQM()
	for _, i := range order {
		if mode == "replace" {
			gqm.UpdateQuotaInfo(s.cfg.quotas[i].obj())
		} else if err := gqm.UpdateQuota(s.cfg.quotas[i].obj()); err != nil {
			panic(err)
		}
	}
	if mode == "replace" {
		gqm.ResetQuota()
	}
	return gqm
}

func (s *c19QSys) deliver(gqm *GroupQuotaManager, ev c19QEvent) {
	p := s.pods[ev.pod]
	switch ev.kind {
	case "add", "dup-add":
		gqm.OnPodAdd(p.shape.quota, p.obj)
	case "same-update":
		n := p.obj.DeepCopy()
		n.ResourceVersion = "777"
		n.Labels["c19/touched"] = "true"
		gqm.OnPodUpdate(p.shape.quota, p.shape.quota, n, p.obj)
	}
}

func (s *c19QSys) restartCheck() *c19QVerdict {
	v := &c19QVerdict{counts: map[string]int64{}}
	live := c19QTakeDump(s.gqm)
	liveS := live.String()
	n := len(s.pods)
	bound, pend := 0, 0
	for _, p := range s.pods {
		if p.bound {
			bound++
		} else {
			pend++
		}
	}
	if bound > 0 {
		v.counts["states_with_surviving_bound_pods"]++
	}
	if bound >= 2 {
		v.counts["states_with_2+_surviving_bound_pods"]++
	}
	if pend > 0 {
		v.counts["states_with_surviving_pending_pod"]++
	}
	if bad := s.usedNotCharged(live); len(bad) > 0 {
		s.res.Diag("NOT judged here (C01): the LIVE manager already disagrees with what the bound pods use: " + strings.Join(bad, "; "))
	}
	podClass := "bound-pods-only"
	if pend > 0 {
		podClass = "with-pending-pod"
	}
	seenKeys := map[string]bool{}
	report := func(key, what string) {
		if !seenKeys[key] {
			seenKeys[key] = true
			v.viol = append(v.viol, mc.Violation{Key: key, What: what})
		}
	}
	ident := make([]int, len(s.cfg.quotas))
	for i := range ident {
		ident[i] = i
	}
	judge := func(mode string, qorder []int, seq []c19QEvent, variant string) {
		gqm := s.load(mode, qorder)
		for _, ev := range seq {
			s.deliver(gqm, ev)
		}
		v.counts["rebuilds"]++
		v.counts["rebuilds_"+variant]++
		v.counts["rebuilds_quota-load-"+mode]++
		names := func() string {
			var qs, es []string
			for _, i := range qorder {
				qs = append(qs, s.cfg.quotas[i].name)
			}
			for _, ev := range seq {
				es = append(es, fmt.Sprintf("%s(p%d)", ev.kind, s.pods[ev.pod].id))
			}
			return fmt.Sprintf("quotas loaded by %s in order %v, then pod events %v", mode, qs, es)
		}
		got := c19QTakeDump(gqm)
		if gs := got.String(); gs != liveS {
			for _, what := range live.diff(got, s.cfg) {
				report(fmt.Sprintf("C19|quota|rebuilt-differs|%s|%s|quota-load-%s|%s", what, podClass, mode, variant),
					fmt.Sprintf("%s into a fresh manager gives\n%s--- but the scheduler that made the allocations held\n%s(surviving pods: %s)", names(), gs, liveS, s.podsString()))
			}
		} else if bound > 0 {
			v.counts["equal_dumps_nontrivial"]++
		}
		if bound > 0 {
			v.counts["corollary_checked"]++
			if bad := s.usedNotCharged(got); len(bad) > 0 {
				report(fmt.Sprintf("C19|quota|used-considered-free|%s|quota-load-%s|%s", podClass, mode, variant),
					fmt.Sprintf("after %s into a fresh manager: %s (surviving pods: %s)", names(), strings.Join(bad, "; "), s.podsString()))
			}
		}
	}
	base := func(perm []int) []c19QEvent {
		out := make([]c19QEvent, len(perm))
		for i, o := range perm {
			out[i] = c19QEvent{"add", o}
		}
		return out
	}
	// (1) every pod delivery (permutation x duplicate add x same update) after the two canonical quota loads
	mc.Permutations(n, func(perm []int) {
		v.counts["pod_delivery_permutations"]++
		b := base(perm)
		for _, mode := range []string{"replace", "events"} {
			judge(mode, ident, b, "plain")
			if mode == "events" {
				continue // duplicate / update variants only after the real start-up load
			}
			for pos, o := range perm {
				for _, kind := range []string{"dup-add", "same-update"} {
					// after all adds (a re-list / a later write); thorough tier: also directly after the pod's own add
					judge(mode, ident, append(append([]c19QEvent{}, b...), c19QEvent{kind, o}), kind)
					if pos != n-1 && s.cfg.thorough {
						after := append(append(append([]c19QEvent{}, b[:pos+1]...), c19QEvent{kind, o}), b[pos+1:]...)
						judge(mode, ident, after, kind)
					}
				}
			}
		}
	})
	// (2) every order of the quota objects (start-up load: any; add events: a parent before its children, as the
	// webhook-admitted creation order and the informer's initial list of an existing tree... see assumptions), pods in
	// creation order
	idPods := make([]int, n)
	for i := range idPods {
		idPods[i] = i
	}
	mc.Permutations(len(s.cfg.quotas), func(qperm []int) {
		qo := append([]int{}, qperm...)
		judge("replace", qo, base(idPods), "quota-order")
		if !s.cfg.thorough {
			return // add-event orders of the quota objects: thorough tier only (not the restart path)
		}
		pos := map[string]int{}
		for i, qi := range qo {
			pos[s.cfg.quotas[qi].name] = i
		}
		for _, qi := range qo {
			if par := s.cfg.quotas[qi].parent; par != extension.RootQuotaName && pos[par] > pos[s.cfg.quotas[qi].name] {
				return
			}
		}
		judge("events", qo, base(idPods), "quota-order")
	})
	// (3) pods delivered BEFORE the quota objects (informers are unordered at start-up): the plugin parks a pod whose quota
	// is not known yet in the default group (OnPodAdd(default, pod)) and, once the quotas are there, moves it with
	// MigratePod(pod, default, quota) (migrateDefaultQuotaGroupsPod, which iterates a map: every migration order)
	mc.Permutations(n, func(perm []int) {
		for _, migr := range [][]int{perm, c19QReversed(perm)} {
			gqm := c19QNewGQM()
			for _, o := range perm {
				gqm.OnPodAdd(extension.DefaultQuotaName, s.pods[o].obj)
			}
			for _, i := range ident {
				if err := gqm.UpdateQuota(s.cfg.quotas[i].obj()); err != nil {
					panic(err)
				}
			}
			for _, o := range migr {
				if q := s.pods[o].shape.quota; q != extension.DefaultQuotaName {
					gqm.MigratePod(s.pods[o].obj, extension.DefaultQuotaName, q)
				}
			}
			v.counts["rebuilds"]++
			v.counts["rebuilds_pods-before-quotas"]++
			got := c19QTakeDump(gqm)
			desc := func() string {
				var es, ms []string
				for _, o := range perm {
					es = append(es, fmt.Sprintf("p%d", s.pods[o].id))
				}
				for _, o := range migr {
					ms = append(ms, fmt.Sprintf("p%d", s.pods[o].id))
				}
				return fmt.Sprintf("pods %v parked in the default group before any quota was known, quotas added, pods migrated in order %v", es, ms)
			}
			if gs := got.String(); gs != liveS {
				for _, what := range live.diff(got, s.cfg) {
					report(fmt.Sprintf("C19|quota|rebuilt-differs|%s|%s|pods-before-quotas", what, podClass),
						fmt.Sprintf("%s: a fresh manager gives\n%s--- but the scheduler that made the allocations held\n%s(surviving pods: %s)", desc(), gs, liveS, s.podsString()))
				}
			} else if bound > 0 {
				v.counts["equal_dumps_nontrivial"]++
			}
			if bound > 0 {
				v.counts["corollary_checked"]++
				if bad := s.usedNotCharged(got); len(bad) > 0 {
					report(fmt.Sprintf("C19|quota|used-considered-free|%s|pods-before-quotas", podClass),
						fmt.Sprintf("%s: %s (surviving pods: %s)", desc(), strings.Join(bad, "; "), s.podsString()))
				}
			}
		}
	})
	return v
}

func c19QReversed(a []int) []int {
	out := make([]int, len(a))
	for i, x := range a {
		out[len(a)-1-i] = x
	}
	return out
}

// usedNotCharged: the explicit corollary from the plain reference: what the surviving bound pods of a group's subtree
// use is charged as used there, and each of them is recorded as assigned.
func (s *c19QSys) usedNotCharged(d *c19QDump) []string {
	var bad []string
	sums := d.sums
	groups := []string{extension.DefaultQuotaName}
	for i := range s.cfg.quotas {
		groups = append(groups, s.cfg.quotas[i].name)
	}
	for _, g := range groups {
		want, cnt := s.usedIn(g)
		if cnt == 0 {
			continue
		}
		sm := sums[g]
		if sm == nil {
			bad = append(bad, fmt.Sprintf("group %s with %d bound pod(s) is unknown", g, cnt))
			continue
		}
		cpu, mem := sm.Used[corev1.ResourceCPU], sm.Used[corev1.ResourceMemory]
		if cpu.MilliValue() < want[0] || mem.Value() < want[1] {
			bad = append(bad, fmt.Sprintf("group %s: bound pods use cpu=%dm memory=%d but only cpu=%dm memory=%d is charged as used", g, want[0], want[1], cpu.MilliValue(), mem.Value()))
		}
	}
	for _, p := range s.pods {
		if p.bound && !p.terminated {
			sm := sums[p.shape.quota]
			if sm == nil {
				continue
			}
			if pi := sm.PodCache["ns/"+p.obj.Name]; pi == nil || !pi.IsAssigned {
				bad = append(bad, fmt.Sprintf("bound pod p%d is not recorded as assigned in %s", p.id, p.shape.quota))
			}
		}
	}
	return bad
}

func (s *c19QSys) podsString() string {
	var sb strings.Builder
	for _, p := range s.pods {
		fmt.Fprintf(&sb, "p%d(%s,bound=%v,terminated=%v) ", p.id, p.shape.name, p.bound, p.terminated)
	}
	return sb.String()
}

func (s *c19QSys) Invariants() []mc.Violation {
	key := s.Key()
	var v *c19QVerdict
	if m, ok := s.cfg.memo.Load(key); ok {
		v = m.(*c19QVerdict)
		s.count("restart_checks_answered_from_memo", 1)
	} else {
		v = s.restartCheck()
		if _, loaded := s.cfg.memo.LoadOrStore(key, v); !loaded {
			for k, n := range v.counts {
				s.count(k, n)
			}
			s.count("restart_checks", 1)
			if v.counts["states_with_surviving_bound_pods"] > 0 {
				s.cfg.nontrv.Add(key)
			}
		}
	}
	var out []mc.Violation
	for _, x := range v.viol {
		if s.cfg.gate.admit(x.Key, key) {
			out = append(out, x)
		} else {
			s.count("violations_beyond_4_witness_states_per_key__counted_only", 1)
		}
	}
	s.flush()
	return out
}

var c19QDumper = &mc.Dumper{SkipFields: map[string]bool{
	// monotone version stamps: only ever compared for equality by the lazy runtime refresh
	"QuotaInfo.RuntimeVersion": true, "RuntimeQuotaCalculator.globalRuntimeVersion": true,
	// pod objects are identified by key; their content is part of the reference state in the key
	"PodInfo.pod": true,
}}

// Key: deep dump of the manager (everything that can steer later events) + the surviving objects.
func (s *c19QSys) Key() string {
	var sb strings.Builder
	for _, p := range s.pods {
		fmt.Fprintf(&sb, "p%d:%s:b%v:t%v:s%v|", p.id, p.shape.name, p.bound, p.terminated, p.seenBind)
	}
	return c19QDumper.Digest(s.gqm, sb.String())
}

// ---------------------------------------------------------------------------------------------------------------

func c19QCfgs() []*c19QCfg {
	root := extension.RootQuotaName
	return []*c19QCfg{{
		name: "quota-tree",
		quotas: []c19QSpec{
			{name: "P", parent: root, isParent: true, lend: true, max: c19QVec{20000, 40 * c19QGi}, min: c19QVec{10000, 20 * c19QGi}},
			{name: "A", parent: "P", lend: true, max: c19QVec{8000, 16 * c19QGi}, min: c19QVec{4000, 8 * c19QGi}},
			{name: "B", parent: "P", lend: false, max: c19QVec{6000, 12 * c19QGi}, min: c19QVec{2000, 4 * c19QGi}},
			{name: "C", parent: root, lend: true, max: c19QVec{4000, 8 * c19QGi}, min: c19QVec{0, 0}},
		},
		shapes: []c19QShape{
			{name: "A:2cpu-4Gi", quota: "A", req: c19QVec{2000, 4 * c19QGi}, pend: true},
			{name: "A:6cpu-4Gi-nonpreemptible", quota: "A", req: c19QVec{6000, 4 * c19QGi}, np: true},
			{name: "A:7cpu-1Gi", quota: "A", req: c19QVec{7000, c19QGi}}, // with another pod the group's request exceeds its max
			{name: "B:1cpu-2Gi", quota: "B", req: c19QVec{1000, 2 * c19QGi}, pend: true},
			{name: "C:3cpu-1Gi", quota: "C", req: c19QVec{3000, c19QGi}},
			{name: "default:1cpu-1Gi", quota: extension.DefaultQuotaName, req: c19QVec{1000, c19QGi}},
		},
		maxPods: 4, depthQ: 3, depthT: 5,
	}}
}

func TestVerifC19Quota(t *testing.T) {
	env := mc.LoadEnv()
	for _, cfg := range c19QCfgs() {
		cfg := cfg
		cfg.nontrv = mc.NewDistinctSet()
		cfg.thorough = env.Thorough()
		ops := c19QOps(cfg)
		res := mc.NewResult("C19", cfg.name, "bfs")
		b := &mc.BFS{Res: res, Env: env, New: func() mc.System { return c19QNew(cfg, ops, res) }, NumOps: len(ops),
			OpName: func(i int) string { return ops[i].name }, MaxDepth: env.Pick(cfg.depthQ, cfg.depthT), Repeats: 1}
		t0 := time.Now()
		b.Run()
		res.WallS = time.Since(t0).Seconds()
		var names []string
		for _, o := range ops {
			names = append(names, o.name)
		}
		res.Rule = fmt.Sprintf("live histories: every sequence up to the depth over %v on the real GroupQuotaManager with the tree root{P(parent){A, B(no lend)}, C} + default group, cluster total 32 cpu / 64Gi; "+
			"every reached state is cut there and the persisted objects (4 quota objects + <= %d surviving pod objects: pending or bound) are replayed into a fresh manager: quotas loaded the start-up way (UpdateQuotaInfo x all + ResetQuota) and as add events (UpdateQuota), "+
			"then the pods through OnPodAdd in EVERY permutation, per permutation (after the start-up load) additionally for every pod one duplicate add and one update carrying the same pod, placed after all adds (thorough tier: also directly after the pod's own add); "+
			"plus every order of the quota objects in the start-up load (thorough tier: also as add events, parents first) with the pods in creation order; non-trivial = at least one surviving bound pod", names, cfg.maxPods)
		res.Assumptions = []string{
			"the quota of a pod is the one its label names and exists (the plugin resolves the name; unknown names go to the default group); the admission step (C03) is replaced by plain arithmetic: used + request within max on the whole path",
			"quota objects do not change across the restart and reach the fresh manager before any pod event: the elastic-quota informer lives in a plugin informer factory that cmd/koord-scheduler/app/server.go starts, syncs and replaces (AfterPluginInformersSynced hook) before the main factories (pods) are started; pods-before-quota orders are therefore not explored",
			"events of one pod are ordered (add, bind update, termination update, delete); pod names unique per incarnation",
		}
		if res.Bounds == nil {
			res.Bounds = map[string]any{}
		}
		res.Bounds["surviving_pod_objects_max"] = cfg.maxPods
		res.Evaluations += res.Counters["rebuilds"]
		res.Distinct = cfg.nontrv.Len()
		for _, need := range []string{"binds", "binds_non_preemptible", "states_with_surviving_bound_pods", "states_with_2+_surviving_bound_pods", "states_with_surviving_pending_pod",
			"rebuilds_plain", "rebuilds_dup-add", "rebuilds_same-update", "rebuilds_quota-order", "rebuilds_quota-load-replace", "rebuilds_quota-load-events",
			"corollary_checked", "pod_deletes", "pod_terminations", "reserve_unreserve_cycles"} {
			if res.Counters[need] == 0 {
				res.Diag("VACUOUS: counter " + need + " stayed 0 in part " + cfg.name)
				fmt.Printf("C19 WARNING: counter %s stayed 0 in part %s\n", need, cfg.name)
			}
		}
		env.Emit(res)
	}
}
