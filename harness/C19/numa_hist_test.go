package nodenumaresource

// C19 part "numa": does the allocation state of the NodeNUMAResource plugin survive a scheduler restart?
//
// Live path (the REAL plugin, one copy with fresh managers per history): for every history over
//   bind(x)      = PreFilter -> Filter -> Reserve -> PreBind / PreBindReservation on the pending object, then the bind
//                  (spec.nodeName / Reservation Available); PreBind writes the resource-status (and, where missing, the
//                  resource-spec) annotation onto the object -- that object is "what is persisted"
//   echo(x)      = the live scheduler's own informer update unbound -> bound+annotated (podEventHandler.OnUpdate)
//   delete(x)    = informer delete of a bound object (final per UID)
//   terminate(x) = informer update to phase Succeeded (pod) / Succeeded (reservation); the object keeps its annotations
//                  and stays in the API server
//   reserve+unreserve(x) = a scheduling attempt that fails after Reserve (nothing persisted, x stays pending)
// of four identities (pods with CPU-bind / exclusive policies, NUMA-policy pods with per-NUMA amounts, plain pods, a
// Reservation) the cut is taken after every event.
// Restart path: a FRESH topology options manager (holding what the plugin's own handler makes of the node's
// NodeResourceTopology object) and a FRESH resource manager behind a fresh podEventHandler (reservations through the
// plugin's ReservationToPod wrapper) receive ONLY the surviving persisted objects: every permutation of their add
// events; plus, for every permutation, every placement of one duplicate add and of one update event carrying the same
// allocation. A second part (numa-topology-order) also permutes the NodeResourceTopology add event among them.
// Oracle (from the statement):
//   (1) for every delivery sequence the canonical rendering of the rebuilt NodeAllocation (pods -> CPU set, exclusive
//       policy, per-NUMA amounts; per-CPU ref counts and topology fields; per-CPU exclusive marks; per-NUMA allocated
//       amounts; single/shared NUMA status) equals the live one, judged section by section (one violation class per
//       kind of difference). Only exception, argued in judge(): under a sharing limit > 1 the live exclusive mark of a
//       CPU is last-writer-wins, there the rebuilt mark must be the policy of a current holder;
//   (2) corollary, against the harness' own reference (the allocation the allocator returned at Reserve, captured
//       before it was encoded): every CPU held by as many live objects as the sharing limit is not available after the
//       restart, available NUMA amounts are at most capacity minus the held amounts, and the available CPU sets / NUMA
//       amounts of the live and the rebuilt manager agree;
//   (3) at every bind: the persisted annotation, read back through the API getters and cpuset.Parse, is the allocation
//       the allocator returned (CPU ids as a set, NUMA node ids and exact amounts).

import (
	"context"
	"fmt"
	"sort"
	"strings"
	"testing"
	"time"

	corev1 "k8s.io/api/core/v1"
	"k8s.io/client-go/tools/cache"
	fwktype "k8s.io/kube-scheduler/framework"
	"k8s.io/kubernetes/pkg/scheduler/framework"

	"github.com/koordinator-sh/koordinator/apis/extension"
	schedulingv1alpha1 "github.com/koordinator-sh/koordinator/apis/scheduling/v1alpha1"
	schedulingconfig "github.com/koordinator-sh/koordinator/pkg/scheduler/apis/config"
	"github.com/koordinator-sh/koordinator/pkg/scheduler/frameworkext"
	"github.com/koordinator-sh/koordinator/pkg/util/cpuset"
	reservationutil "github.com/koordinator-sh/koordinator/pkg/util/reservation"
	"github.com/koordinator-sh/koordinator/pkg/zzverif/mc"
)

const (
	c19Pending = iota
	c19Bound
	c19Deleted
)

const (
	c19OpBind = iota
	c19OpEcho
	c19OpDelete
	c19OpTerminate
	c19OpResUnres
	c19OpsPerIdent
)

var c19OpNames = [...]string{"bind", "echo", "delete", "terminate", "reserve+unreserve"}

// c19Ref is the harness' record of what the allocator handed out (independent of any encoding).
type c19Ref struct {
	cpus []int
	excl schedulingconfig.CPUExclusivePolicy
	numa map[int]map[string]int64
}

func (r *c19Ref) String() string {
	if r == nil {
		return "none"
	}
	return fmt.Sprintf("cpus%v excl=%q numa%s", r.cpus, r.excl, c19AmountsString(r.numa))
}

type c19Ident struct {
	spec       c19PodSpec
	state      int
	echoed     bool
	terminated bool
	origPod    *corev1.Pod
	origResv   *schedulingv1alpha1.Reservation
	pod        *corev1.Pod                     // persisted object (bound)
	resv       *schedulingv1alpha1.Reservation // persisted object (Available)
	ref        *c19Ref
}

func (id *c19Ident) holds() bool { return id.state == c19Bound && !id.terminated && id.ref != nil }

type c19Sys struct {
	cfg      *c19Cfg
	base     *c19Base
	pl       *Plugin
	rm       *resourceManager
	live     *podEventHandler
	liveResv cache.ResourceEventHandler
	ids      []*c19Ident
	depth    int
}

func c19NewSys(cfg *c19Cfg, base *c19Base) *c19Sys {
	pl, rm := base.newPlugin(cfg)
	s := &c19Sys{cfg: cfg, base: base, pl: pl, rm: rm, live: &podEventHandler{resourceManager: rm}}
	s.liveResv = reservationutil.NewReservationToPodEventHandler(s.live, reservationutil.IsObjValidActiveReservation)
	for _, ps := range cfg.Pods {
		s.ids = append(s.ids, &c19Ident{spec: ps})
	}
	return s
}

func (c *c19Cfg) opName(op int) string {
	return fmt.Sprintf("%s(%s)", c19OpNames[op%c19OpsPerIdent], c.Pods[op/c19OpsPerIdent].Name)
}

// schedule runs the scheduling cycle of the plugin for a pending identity up to and including Reserve.
func (s *c19Sys) schedule(id *c19Ident) (pod *corev1.Pod, r *schedulingv1alpha1.Reservation, cs fwktype.CycleState, ok bool, why string) {
	ctx := context.TODO()
	if id.spec.Reservation {
		r = id.spec.newReservation()
		pod = reservationutil.NewReservePod(r)
	} else {
		pod = id.spec.newPod()
	}
	cs = framework.NewCycleState()
	_, st := s.pl.PreFilter(ctx, cs, pod, nil)
	if !st.IsSuccess() && !st.IsSkip() {
		return pod, r, cs, false, "PreFilter: " + st.Message()
	}
	nodeInfo, err := s.base.suit.Handle.SnapshotSharedLister().NodeInfos().Get(s.cfg.Node)
	if err != nil || nodeInfo == nil || nodeInfo.Node() == nil {
		panic("c19: node missing in the snapshot")
	}
	if !st.IsSkip() {
		if st = s.pl.Filter(ctx, cs, pod, nodeInfo); !st.IsSuccess() {
			return pod, r, cs, false, "Filter: " + st.Message()
		}
	}
	if st = s.pl.Reserve(ctx, cs, pod, s.cfg.Node); !st.IsSuccess() {
		s.pl.Unreserve(ctx, cs, pod, s.cfg.Node)
		return pod, r, cs, false, "Reserve: " + st.Message()
	}
	return pod, r, cs, true, ""
}

func c19RefOf(a *PodAllocation) *c19Ref {
	if a == nil {
		return nil
	}
	ref := &c19Ref{cpus: a.CPUSet.ToSlice(), excl: a.CPUExclusivePolicy, numa: map[int]map[string]int64{}}
	for _, r := range a.NUMANodeResources {
		if ref.numa[r.Node] == nil {
			ref.numa[r.Node] = map[string]int64{}
		}
		c19Amounts(r.Resources, ref.numa[r.Node])
	}
	return ref
}

func (s *c19Sys) Apply(op int, check bool) (bool, []mc.Violation) {
	cfg := s.cfg
	id := s.ids[op/c19OpsPerIdent]
	ctx := context.TODO()
	s.depth++
	var viol []mc.Violation
	switch op % c19OpsPerIdent {
	case c19OpBind:
		if id.state != c19Pending {
			return false, nil
		}
		pod, r, cs, ok, why := s.schedule(id)
		if !ok {
			if check {
				cfg.res.Count("bind_refused", 1)
				cfg.res.Count("bind_refused_"+id.spec.Name, 1)
				_ = why
			}
			return true, nil
		}
		var ref *c19Ref
		if st, err := cs.Read(stateKey); err == nil {
			if pfs := st.(*preFilterState); !pfs.skip {
				ref = c19RefOf(pfs.allocation)
			}
		}
		if id.spec.Reservation {
			id.origResv = r.DeepCopy()
			if st := s.pl.PreBindReservation(ctx, cs, r, cfg.Node); !st.IsSuccess() {
				panic("c19: PreBindReservation failed: " + st.Message())
			}
			if err := reservationutil.SetReservationAvailable(r, cfg.Node); err != nil {
				panic(err)
			}
			r.ResourceVersion = "2"
			id.resv = r
		} else {
			id.origPod = pod.DeepCopy()
			if st := s.pl.PreBind(ctx, cs, pod, cfg.Node); !st.IsSuccess() {
				panic("c19: PreBind failed: " + st.Message())
			}
			pod.Spec.NodeName = cfg.Node
			pod.ResourceVersion = "2"
			id.pod = pod
		}
		id.state, id.ref = c19Bound, ref
		if check {
			viol = append(viol, s.checkPersisted(id)...)
		}
	case c19OpEcho:
		if id.state != c19Bound || id.echoed || id.terminated {
			return false, nil
		}
		if id.spec.Reservation {
			s.liveResv.OnUpdate(id.origResv, id.resv)
		} else {
			s.live.OnUpdate(id.origPod, id.pod)
		}
		id.echoed = true
		if check && id.ref != nil {
			cfg.res.Count("echo_of_object_with_allocation", 1)
		}
	case c19OpDelete:
		if id.state != c19Bound {
			return false, nil
		}
		if id.spec.Reservation {
			s.liveResv.OnDelete(id.resv)
		} else {
			s.live.OnDelete(id.pod)
		}
		if check && id.holds() {
			cfg.res.Count("delete_of_object_with_allocation", 1)
		}
		id.state = c19Deleted
	case c19OpTerminate:
		if id.state != c19Bound || id.terminated {
			return false, nil
		}
		if id.spec.Reservation {
			nr := id.resv.DeepCopy()
			reservationutil.SetReservationSucceeded(nr)
			nr.ResourceVersion = "3"
			s.liveResv.OnUpdate(id.resv, nr)
			id.resv = nr
		} else {
			np := id.pod.DeepCopy()
			np.Status.Phase = corev1.PodSucceeded
			np.ResourceVersion = "3"
			s.live.OnUpdate(id.pod, np)
			id.pod = np
		}
		if check && id.ref != nil {
			cfg.res.Count("terminate_of_object_with_allocation", 1)
		}
		id.terminated = true
	case c19OpResUnres:
		if id.state != c19Pending {
			return false, nil
		}
		pod, _, cs, ok, _ := s.schedule(id)
		if ok {
			s.pl.Unreserve(ctx, cs, pod, cfg.Node)
			if check {
				cfg.res.Count("reserve_then_unreserve", 1)
			}
		}
	}
	return true, viol
}

// checkPersisted is oracle clause (3): what was written at bind time reads back as the allocation the allocator made.
func (s *c19Sys) checkPersisted(id *c19Ident) (viol []mc.Violation) {
	cfg := s.cfg
	ann := s.annotations(id)
	add := func(key, what string) {
		viol = append(viol, mc.Violation{Key: "C19|numa|" + key, What: fmt.Sprintf("%s -- %s; allocator returned %s; persisted resource-status=%q resource-spec=%q", what, id.spec, id.ref, ann[extension.AnnotationResourceStatus], ann[extension.AnnotationResourceSpec])})
	}
	rs, err := extension.GetResourceStatus(ann)
	if err != nil {
		add("persisted-annotation-unreadable", "GetResourceStatus: "+err.Error())
		return
	}
	cpus, err := cpuset.Parse(rs.CPUSet)
	if err != nil {
		add("persisted-cpuset-unreadable", "cpuset.Parse: "+err.Error())
		return
	}
	if id.ref == nil {
		cfg.res.Count("bind_without_allocation", 1)
		if !cpus.IsEmpty() || len(rs.NUMANodeResources) != 0 {
			add("persisted-allocation-without-allocation", "the plugin allocated nothing but a resource status was persisted")
		}
		return
	}
	cfg.res.Count("bind_with_allocation", 1)
	cfg.res.Count("bind_with_allocation_"+id.spec.Name, 1)
	if s.depth <= 2 {
		cfg.res.Sample(fmt.Sprintf("%s: allocator %s; persisted resource-status=%s resource-spec=%s", id.spec.Name, id.ref, ann[extension.AnnotationResourceStatus], ann[extension.AnnotationResourceSpec]))
	}
	if len(id.ref.cpus) > 0 {
		cfg.res.Count("bind_with_cpuset", 1)
		if strings.ContainsAny(rs.CPUSet, ",") {
			cfg.res.Count("bind_with_non_contiguous_cpuset_string", 1)
		}
	}
	if fmt.Sprint(cpus.ToSlice()) != fmt.Sprint(id.ref.cpus) {
		add("persisted-cpuset-ne-allocation", fmt.Sprintf("persisted CPU set reads back as %v", cpus.ToSlice()))
	}
	got := map[int]map[string]int64{}
	for _, r := range rs.NUMANodeResources {
		if got[int(r.Node)] == nil {
			got[int(r.Node)] = map[string]int64{}
		}
		c19Amounts(r.Resources, got[int(r.Node)])
	}
	if len(id.ref.numa) > 0 {
		cfg.res.Count("bind_with_numa_amounts", 1)
		if len(id.ref.numa) > 1 {
			cfg.res.Count("bind_with_amounts_on_several_numa_nodes", 1)
		}
		if len(id.ref.cpus) == 0 {
			cfg.res.Count("bind_with_numa_amounts_only", 1)
		}
	}
	if c19AmountsString(got) != c19AmountsString(id.ref.numa) || len(got) != len(id.ref.numa) {
		add("persisted-numa-amounts-ne-allocation", fmt.Sprintf("persisted NUMA amounts read back as %s (%d nodes)", c19AmountsString(got), len(got)))
	}
	return viol
}

func (s *c19Sys) annotations(id *c19Ident) map[string]string {
	if id.spec.Reservation {
		return id.resv.Annotations
	}
	return id.pod.Annotations
}

// restart ------------------------------------------------------------------------------------------------------------------

const (
	c19EvAdd = iota
	c19EvDupAdd
	c19EvUpdate
	c19EvTopology
	c19EvPreBindThenBound // a pod: add of the still pending pod that already carries the persisted allocation, then the update that sets spec.nodeName
)

type c19Event struct {
	kind int
	who  int // index into survivors
}

type c19Restart struct {
	rm   *resourceManager
	tom  TopologyOptionsManager
	th   *nodeResourceTopologyEventHandler
	h    *podEventHandler
	rh   cache.ResourceEventHandler
	cfg  *c19Cfg
	objs []*c19Ident
}

func (s *c19Sys) newRestart(objs []*c19Ident, deliverTopology bool) *c19Restart {
	rm, tom, th := c19Managers(s.cfg, s.base.pl, deliverTopology)
	h := &podEventHandler{resourceManager: rm}
	return &c19Restart{rm: rm, tom: tom, th: th, h: h, cfg: s.cfg, objs: objs,
		rh: reservationutil.NewReservationToPodEventHandler(h, reservationutil.IsObjValidActiveReservation)}
}

func (r *c19Restart) deliver(ev c19Event) {
	if ev.kind == c19EvTopology {
		r.th.OnAdd(r.cfg.nrt.DeepCopy(), true)
		return
	}
	id := r.objs[ev.who]
	switch {
	case id.spec.Reservation && ev.kind == c19EvUpdate:
		n := id.resv.DeepCopy()
		n.ResourceVersion = "9"
		n.Labels = map[string]string{"touched": "true"}
		r.rh.OnUpdate(id.resv, n)
	case id.spec.Reservation:
		r.rh.OnAdd(id.resv, ev.kind == c19EvAdd)
	case ev.kind == c19EvUpdate:
		n := id.pod.DeepCopy()
		n.ResourceVersion = "9"
		n.Labels["touched"] = "true"
		r.h.OnUpdate(id.pod, n)
	case ev.kind == c19EvPreBindThenBound:
		// the cut lies between PreBind's patch and the moment the binding becomes visible
		pend := id.pod.DeepCopy()
		pend.Spec.NodeName = ""
		pend.ResourceVersion = "1"
		r.h.OnAdd(pend, true)
		r.h.OnUpdate(pend, id.pod)
	default:
		r.h.OnAdd(id.pod, ev.kind == c19EvAdd)
	}
}

func c19SeqString(objs []*c19Ident, seq []c19Event) string {
	parts := make([]string, len(seq))
	for i, ev := range seq {
		switch ev.kind {
		case c19EvTopology:
			parts[i] = "add(NodeResourceTopology)"
		case c19EvAdd:
			parts[i] = "add(" + objs[ev.who].spec.Name + ")"
		case c19EvDupAdd:
			parts[i] = "add-again(" + objs[ev.who].spec.Name + ")"
		case c19EvPreBindThenBound:
			parts[i] = "add-pending-with-allocation+update-bound(" + objs[ev.who].spec.Name + ")"
		default:
			parts[i] = "update-same(" + objs[ev.who].spec.Name + ")"
		}
	}
	return strings.Join(parts, " ")
}

func (s *c19Sys) survivors() []*c19Ident {
	var out []*c19Ident
	for _, id := range s.ids {
		if id.state == c19Bound {
			out = append(out, id)
		}
	}
	return out
}

// refHolders counts, per CPU, the live holders according to the harness' reference and tells which exclusive policies
// they asked for.
func (s *c19Sys) refHolders() (holders map[int]int, policies map[int]map[schedulingconfig.CPUExclusivePolicy]bool, numa map[int]map[string]int64) {
	holders, policies, numa = map[int]int{}, map[int]map[schedulingconfig.CPUExclusivePolicy]bool{}, map[int]map[string]int64{}
	for _, id := range s.ids {
		if !id.holds() {
			continue
		}
		for _, c := range id.ref.cpus {
			holders[c]++
			if policies[c] == nil {
				policies[c] = map[schedulingconfig.CPUExclusivePolicy]bool{}
			}
			policies[c][id.ref.excl] = true
		}
		for node, m := range id.ref.numa {
			if numa[node] == nil {
				numa[node] = map[string]int64{}
			}
			for name, v := range m {
				numa[node][name] += v
			}
		}
	}
	return
}

func (s *c19Sys) maxRef() int {
	if s.cfg.MaxRef > 0 {
		return s.cfg.MaxRef
	}
	return 1
}

type c19Avail struct {
	cpus string
	set  cpuset.CPUSet
	numa map[int]map[string]int64
	str  string
}

func c19AvailOf(rm *resourceManager, tom TopologyOptionsManager, node string) c19Avail {
	cpus, _, err := rm.GetAvailableCPUs(node)
	if err != nil {
		return c19Avail{cpus: "error: " + err.Error(), str: "error"}
	}
	avail, _, _ := rm.getAvailableNUMANodeResources(node, tom.GetTopologyOptions(node), nil)
	a := c19Avail{cpus: fmt.Sprint(cpus.ToSlice()), set: cpus, numa: map[int]map[string]int64{}}
	for n, rl := range avail {
		a.numa[n] = map[string]int64{}
		c19Amounts(rl, a.numa[n])
	}
	a.str = c19AmountsString(a.numa)
	return a
}

// judge compares one rebuilt manager with the live one; where tells the delivery sequence.
func (s *c19Sys) judge(r *c19Restart, live c19View, liveAvail c19Avail, where string, add func(key string, what func() string)) {
	cfg := s.cfg
	got := c19Render(r.rm.GetNodeAllocation(cfg.Node))
	holders, policies, refNUMA := s.refHolders()
	ctx := func() string {
		return fmt.Sprintf("delivery: %s\n--- live state ---\n%s--- rebuilt state ---\n%s--- reference (allocator results) ---\n%s", where, live, got, s.refString())
	}
	// (1) section by section, one violation class per kind of difference
	kindOf := map[string]string{}
	for _, id := range s.ids {
		k := "pod"
		if id.spec.Reservation {
			k = "reservation"
		}
		kindOf["uid-"+id.spec.Name] = k
	}
	direction := func(liveV, gotV string) string {
		switch {
		case gotV == "":
			return "lost"
		case liveV == "":
			return "gained"
		}
		return "changed"
	}
	for uid, lp := range live.Pods {
		gp, ok := got.Pods[uid]
		if !ok {
			add("rebuilt-ne-live|pod-record-missing", func() string {
				return "an object recorded by the live scheduler is not recorded after the restart: " + uid + "\n" + ctx()
			})
			continue
		}
		if gp.ident != lp.ident {
			add("rebuilt-ne-live|pod-record-identity", func() string {
				return "uid/namespace/name of the record of " + uid + " differ after the restart\n" + ctx()
			})
		}
		if gp.cpus != lp.cpus {
			add("rebuilt-ne-live|pod-record-cpuset", func() string { return "the CPU set recorded for " + uid + " differs after the restart\n" + ctx() })
		}
		if gp.numa != lp.numa {
			add("rebuilt-ne-live|pod-record-numa-amounts", func() string {
				return "the per-NUMA amounts recorded for " + uid + " differ after the restart\n" + ctx()
			})
		}
		if gp.excl != lp.excl {
			add("rebuilt-ne-live|pod-record-exclusive-policy|"+kindOf[uid]+"|"+direction(lp.excl, gp.excl), func() string {
				return fmt.Sprintf("the exclusive policy recorded for %s is %q live and %q after the restart\n%s", uid, lp.excl, gp.excl, ctx())
			})
		}
	}
	for uid := range got.Pods {
		if _, ok := live.Pods[uid]; !ok {
			add("rebuilt-ne-live|pod-record-extra", func() string {
				return "an object is recorded after the restart that the live scheduler does not record: " + uid + "\n" + ctx()
			})
		}
	}
	for c := -1; c <= cfg.L.N; c++ {
		if got.CPUs[c] != live.CPUs[c] {
			add("rebuilt-ne-live|cpu-refcounts", func() string {
				return fmt.Sprintf("CPU %d: live %q, after the restart %q\n%s", c, live.CPUs[c], got.CPUs[c], ctx())
			})
			break
		}
	}
	if len(got.CPUs) != len(live.CPUs) {
		add("rebuilt-ne-live|cpu-refcounts", func() string { return "a different number of CPUs is recorded after the restart\n" + ctx() })
	}
	if got.Amounts != live.Amounts {
		add("rebuilt-ne-live|numa-amounts", func() string { return "the per-NUMA allocated amounts differ after the restart\n" + ctx() })
	}
	if got.Status != live.Status {
		add("rebuilt-ne-live|numa-single-shared-status", func() string { return "the single/shared NUMA node status differs after the restart\n" + ctx() })
	}
	for c := 0; c < cfg.L.N; c++ {
		lm, lok := live.Marks[c]
		gm, gok := got.Marks[c]
		if lm == gm || !lok || !gok { // presence is judged with the ref counts
			continue
		}
		if s.maxRef() > 1 {
			// Under a sharing limit > 1 every pod added to a CPU overwrites its exclusive mark and release never
			// restores it: the live mark is the policy of whichever pod was recorded last, possibly one that is gone
			// (the allocation ORDER, persisted nowhere). No rebuild can reproduce that and the live value is not a
			// function of the allocations, so equality is a diagnostic; judged is what a rebuild can guarantee: the
			// mark after the restart is the policy of one of the current holders.
			cfg.res.Count("diag_exclusive_mark_differs_under_sharing_limit_2(live_mark_is_last_writer_wins)", 1)
			if !policies[c][schedulingconfig.CPUExclusivePolicy(gm)] {
				add("rebuilt-ne-live|cpu-exclusive-mark|not-a-holders-policy", func() string {
					return fmt.Sprintf("CPU %d is marked %q after the restart, which no current holder asked for\n%s", c, gm, ctx())
				})
			}
			continue
		}
		holder := "unheld-cpu"
		for _, id := range s.ids {
			if !id.holds() {
				continue
			}
			for _, x := range id.ref.cpus {
				if x == c {
					holder = kindOf["uid-"+id.spec.Name]
				}
			}
		}
		add("rebuilt-ne-live|cpu-exclusive-mark|"+holder+"|"+direction(lm, gm), func() string {
			return fmt.Sprintf("CPU %d is marked %q live and %q after the restart\n%s", c, lm, gm, ctx())
		})
	}
	// corollary against the reference
	av := c19AvailOf(r.rm, r.tom, cfg.Node)
	for c, h := range holders {
		if h >= s.maxRef() && av.set.Contains(c) {
			add("held-cpu-free-after-restart", func() string {
				return fmt.Sprintf("CPU %d is held by %d live object(s) (sharing limit %d) but is available after the restart (available: %s)\n%s", c, h, s.maxRef(), av.cpus, ctx())
			})
			break
		}
	}
	for node, m := range refNUMA {
		for name, held := range m {
			if held == 0 {
				continue
			}
			capacity := cfg.capacity(node, name)
			if have := av.numa[node][name]; have > capacity-held {
				add("held-numa-amount-free-after-restart", func() string {
					return fmt.Sprintf("NUMA node %d %s: %dm held of %dm, yet %dm available after the restart\n%s", node, name, held, capacity, have, ctx())
				})
			}
		}
	}
	if av.cpus != liveAvail.cpus {
		add("available-cpus-differ", func() string {
			return fmt.Sprintf("available CPUs live %s, after the restart %s\n%s", liveAvail.cpus, av.cpus, ctx())
		})
	}
	if av.str != liveAvail.str {
		add("available-numa-amounts-differ", func() string {
			return fmt.Sprintf("available NUMA amounts live %s, after the restart %s\n%s", liveAvail.str, av.str, ctx())
		})
	}
}

func (c *c19Cfg) capacity(node int, name string) int64 {
	for _, z := range c.nrt.Zones {
		if z.Name != fmt.Sprintf("node-%d", node) {
			continue
		}
		for _, r := range z.Resources {
			if r.Name == name {
				v := r.Allocatable.MilliValue()
				if name == "cpu" && c.ReservedCPUs != "" {
					for _, id := range cpuset.MustParse(c.ReservedCPUs).ToSlice() {
						if c.L.Node[id] == node {
							v -= 1000
						}
					}
				}
				return v
			}
		}
	}
	return 0
}

func (s *c19Sys) refString() string {
	var sb strings.Builder
	for _, id := range s.ids {
		if id.state == c19Bound {
			t := ""
			if id.terminated {
				t = " (terminated)"
			}
			fmt.Fprintf(&sb, " %s%s: %s\n", id.spec.Name, t, id.ref)
		}
	}
	return sb.String()
}

// Invariants is the restart check at the cut after the last event.
func (s *c19Sys) Invariants() (viol []mc.Violation) {
	cfg := s.cfg
	seen := map[string]bool{}
	add := func(key string, what func() string) {
		if seen[key] {
			return // one witness per class and state
		}
		seen[key] = true
		if !cfg.witness(key, s.depth) {
			cfg.res.Count("further_states_violating|"+key, 1)
			return
		}
		viol = append(viol, mc.Violation{Key: "C19|numa|" + key, What: what()})
	}
	objs := s.survivors()
	live := c19Render(s.rm.GetNodeAllocation(cfg.Node))
	liveAvail := c19AvailOf(s.rm, s.pl.topologyOptionsManager, cfg.Node)
	n := len(objs)
	holding, shared := 0, false
	for _, id := range objs {
		if id.holds() {
			holding++
		}
	}
	holders, _, refNUMA := s.refHolders()
	for _, h := range holders {
		if h > 1 {
			shared = true
		}
	}
	cfg.res.Count("restart_cuts", 1)
	cfg.res.Count(fmt.Sprintf("restart_cuts_with_%d_surviving_objects", n), 1)
	cfg.res.Count(fmt.Sprintf("restart_cuts_with_%d_objects_holding_an_allocation", holding), 1)
	if n > holding {
		cfg.res.Count("restart_cuts_with_a_survivor_that_must_be_ignored(terminated_or_no_allocation)", 1)
	}
	if shared {
		cfg.res.Count("restart_cuts_with_a_cpu_held_twice", 1)
	}
	if len(refNUMA) > 0 {
		cfg.res.Count("restart_cuts_with_numa_amounts_held", 1)
	}
	if len(holders) > 0 {
		cfg.res.Count("restart_cuts_with_cpus_held", 1)
	}
	run := func(seq []c19Event) {
		r := s.newRestart(objs, true)
		for _, ev := range seq {
			r.deliver(ev)
		}
		cfg.res.Count("delivery_sequences_judged", 1)
		s.judge(r, live, liveAvail, c19SeqString(objs, seq), add)
	}
	mc.Permutations(n, func(p []int) {
		base := make([]c19Event, n)
		for i, who := range p {
			base[i] = c19Event{c19EvAdd, who}
		}
		run(base)
		cfg.res.Count("delivery_permutations", 1)
		for i := 0; i < n; i++ { // the pod at position i is first seen pending (already carrying its allocation), then bound
			if id := objs[base[i].who]; !id.spec.Reservation && id.pod != nil && id.pod.Spec.NodeName != "" {
				seq := append([]c19Event{}, base...)
				seq[i] = c19Event{c19EvPreBindThenBound, base[i].who}
				run(seq)
				if id.holds() {
					cfg.res.Count("prebind_then_bound_delivery_of_pod_with_allocation", 1)
				}
			}
		}
		for i := 0; i < n; i++ { // the object added at position i gets one more event at every later position
			for pos := i + 1; pos <= n; pos++ {
				for _, kind := range []int{c19EvDupAdd, c19EvUpdate} {
					seq := make([]c19Event, 0, n+1)
					seq = append(seq, base[:pos]...)
					seq = append(seq, c19Event{kind, base[i].who})
					seq = append(seq, base[pos:]...)
					run(seq)
					if objs[base[i].who].holds() {
						if kind == c19EvDupAdd {
							cfg.res.Count("duplicate_add_of_object_with_allocation", 1)
						} else {
							cfg.res.Count("update_same_allocation_of_object_with_allocation", 1)
						}
					}
				}
			}
		}
	})
	return viol
}

func (s *c19Sys) Key() string {
	var sb strings.Builder
	for _, id := range s.ids {
		fmt.Fprintf(&sb, "%s state=%d echoed=%v terminated=%v ref=%s", id.spec.Name, id.state, id.echoed, id.terminated, id.ref)
		if id.state == c19Bound {
			ann := s.annotations(id)
			fmt.Fprintf(&sb, " status=%s spec=%s", ann[extension.AnnotationResourceStatus], ann[extension.AnnotationResourceSpec])
		}
		sb.WriteString("\n")
	}
	sb.WriteString(c19Render(s.rm.GetNodeAllocation(s.cfg.Node)).String())
	return sb.String()
}

// configurations -------------------------------------------------------------------------------------------------------------

func c19Configs(thorough bool) []*c19Cfg {
	const (
		full   = extension.CPUBindPolicyFullPCPUs
		spread = extension.CPUBindPolicySpreadByPCPUs
		pcpu   = extension.CPUExclusivePolicyPCPULevel
		numal  = extension.CPUExclusivePolicyNUMANodeLevel
		none   = extension.CPUExclusivePolicyNone
	)
	single := &extension.NUMATopologySpec{NUMATopologyPolicy: extension.NUMATopologyPolicySingleNUMANode}
	restricted := &extension.NUMATopologySpec{NUMATopologyPolicy: extension.NUMATopologyPolicyRestricted}
	besteffort := &extension.NUMATopologySpec{NUMATopologyPolicy: extension.NUMATopologyPolicyBestEffort}
	cfgs := []*c19Cfg{
		{
			// plain node: CPU sets of LSR/LSE pods with every bind / exclusive policy flavour, a NUMA-policy pod that gets
			// a CPU set and per-NUMA amounts, a pod that gets nothing
			Name: "plain-1x2x2x2", L: c19NewLayout(1, 2, 2, 2, false), MemPerNode: "8Gi",
			Pods: []c19PodSpec{
				{Name: "a", QoS: "LSR", CPU: "2", Mem: "1Gi", Spec: &extension.ResourceSpec{PreferredCPUBindPolicy: spread, PreferredCPUExclusivePolicy: pcpu}},
				{Name: "b", QoS: "LSE", CPU: "4", Mem: "2Gi", Spec: &extension.ResourceSpec{RequiredCPUBindPolicy: extension.CPUBindPolicyDefault}},
				{Name: "c", QoS: "LSR", CPU: "2", Mem: "3Gi", Spec: &extension.ResourceSpec{PreferredCPUBindPolicy: full, PreferredCPUExclusivePolicy: numal}, NUMA: single},
				{Name: "d", QoS: "LS", CPU: "1500m", Mem: "1Gi"},
			},
		},
		{
			// NUMA topology policy on the node: every pod gets per-NUMA amounts, non-cpuset pods ONLY amounts (fractional
			// CPU, zero-CPU), the reservation persists on the Reservation object
			Name: "numa-policy-node-2x1x2x2ilv", L: c19NewLayout(2, 1, 2, 2, true), MemPerNode: "4Gi",
			NodeLabels: map[string]string{extension.LabelNUMATopologyPolicy: string(extension.NUMATopologyPolicyRestricted)},
			Pods: []c19PodSpec{
				{Name: "a", QoS: "LS", CPU: "1500m", Mem: "1Gi"},
				{Name: "b", QoS: "LSR", CPU: "6", Mem: "5Gi", Spec: &extension.ResourceSpec{PreferredCPUBindPolicy: full, PreferredCPUExclusivePolicy: pcpu}},
				{Name: "r", Reservation: true, QoS: "LSR", CPU: "2", Mem: "2Gi", Spec: &extension.ResourceSpec{PreferredCPUBindPolicy: full, PreferredCPUExclusivePolicy: pcpu}},
				{Name: "d", QoS: "BE", Mem: "512Mi"},
			},
		},
		{
			// node-level CPU bind policy: pods that are not LSR/LSE get CPU sets too; kubelet-reported reserved CPUs and
			// kubelet-reported topology manager policy (best-effort: admission happens in Reserve)
			Name: "fullpcpus-node-1x2x3x2-reserved", L: c19NewLayout(1, 2, 3, 2, false), MemPerNode: "8Gi", ReservedCPUs: "0-1", KubeletNUMA: "BestEffort",
			NodeLabels: map[string]string{extension.LabelNodeCPUBindPolicy: string(extension.NodeCPUBindPolicyFullPCPUsOnly)},
			Pods: []c19PodSpec{
				{Name: "a", QoS: "LS", CPU: "2", Mem: "1Gi"},
				{Name: "b", QoS: "LS", CPU: "2", Mem: "1Gi", Spec: &extension.ResourceSpec{PreferredCPUExclusivePolicy: pcpu}},
				{Name: "c", QoS: "LSR", CPU: "4", Mem: "1Gi", Spec: &extension.ResourceSpec{PreferredCPUExclusivePolicy: numal}},
				{Name: "r", Reservation: true, QoS: "LSR", CPU: "2", Mem: "1Gi", Spec: &extension.ResourceSpec{PreferredCPUBindPolicy: full, PreferredCPUExclusivePolicy: none}},
			},
		},
		{
			// sharing limit 2: ref counts of 2, pods with the same and with different exclusive policies on one CPU
			Name: "shared-limit2-1x1x2x2", L: c19NewLayout(1, 1, 2, 2, false), MemPerNode: "8Gi", MaxRef: 2,
			Pods: []c19PodSpec{
				{Name: "a", QoS: "LSR", CPU: "4", Mem: "1Gi", Spec: &extension.ResourceSpec{PreferredCPUBindPolicy: full, PreferredCPUExclusivePolicy: pcpu}},
				{Name: "b", QoS: "LSR", CPU: "3", Mem: "1Gi", Spec: &extension.ResourceSpec{PreferredCPUBindPolicy: spread, PreferredCPUExclusivePolicy: pcpu}},
				{Name: "c", QoS: "LSR", CPU: "2", Mem: "1Gi", Spec: &extension.ResourceSpec{PreferredCPUBindPolicy: full}},
				{Name: "d", QoS: "LSE", CPU: "1", Mem: "1Gi", Spec: &extension.ResourceSpec{RequiredCPUBindPolicy: spread, PreferredCPUExclusivePolicy: numal}},
			},
		},
	}
	if thorough {
		cfgs = append(cfgs, &c19Cfg{
			// four NUMA nodes on two sockets, interleaved numbering: non-contiguous CPU set strings, amounts on several nodes
			Name: "2x2x2x2ilv-pod-numa-policies", L: c19NewLayout(2, 2, 2, 2, true), MemPerNode: "4Gi", ReservedCPUs: "5",
			Pods: []c19PodSpec{
				{Name: "a", QoS: "LSR", CPU: "6", Mem: "9Gi", Spec: &extension.ResourceSpec{PreferredCPUBindPolicy: spread, PreferredCPUExclusivePolicy: numal}, NUMA: restricted},
				{Name: "b", QoS: "LS", CPU: "2500m", Mem: "3Gi", NUMA: single},
				{Name: "r", Reservation: true, QoS: "LSE", CPU: "3", Mem: "2Gi", Spec: &extension.ResourceSpec{RequiredCPUBindPolicy: spread, PreferredCPUExclusivePolicy: pcpu}, NUMA: besteffort},
				{Name: "d", QoS: "LSR", CPU: "5", Mem: "1Gi", Spec: &extension.ResourceSpec{PreferredCPUBindPolicy: full}},
			},
		})
	}
	for i, c := range cfgs {
		c.Node = fmt.Sprintf("c19-node-%d", i)
		c.build()
	}
	return cfgs
}

func TestVerifC19Numa(t *testing.T) {
	env := mc.LoadEnv()
	cfgs := c19Configs(env.Thorough())
	base := c19NewBase(t, cfgs)
	for ci, cfg := range cfgs {
		cfg := cfg
		sub := mc.LoadEnv()
		sub.Budget = (env.Budget - env.Elapsed()) * 9 / 10 / time.Duration(len(cfgs)-ci)
		res := mc.NewResult("C19", "numa-"+cfg.Name, "bfs")
		cfg.res = res
		res.Rule = "every sequence of {bind, echo, delete, terminate, reserve+unreserve} x 4 identities up to the depth bound on the real plugin (states merged by identity states + persisted annotations + complete live ledger); " +
			"at every cut: every permutation of the surviving objects' add events into fresh managers, plus every placement of one duplicate add / one same-allocation update; distinct = distinct live states"
		res.Assumptions = []string{
			"one node; the NodeResourceTopology (CPU topology, reserved CPUs, NUMA zone resources, kubelet policies) and the sharing limit are the same before and after the restart and are known to the fresh topology manager BEFORE the pod events (the other orders are judged in part numa-topology-order)",
			"the per-history plugin is a copy of the fixture's real Plugin (same args, scorers, framework handle) with fresh managers; the handle's NUMA admission delegates to a topology manager whose only hint provider is that copy",
			"no pods allocated out of a reservation's CPUs (reservation restore state empty), no CPU amplification ratio, no preemption state",
			"under a sharing limit of 2 (a value only out-of-tree plugins set) the live exclusive mark of a CPU is the policy of the last pod recorded on it, even one that is gone; equality of that mark is a diagnostic, judged is that the rebuilt mark is the policy of a current holder",
		}
		var specs []string
		for _, p := range cfg.Pods {
			specs = append(specs, p.String())
		}
		res.Bounds = map[string]any{"topology": cfg.L.Name, "node_labels": cfg.NodeLabels, "max_ref_count": cfg.MaxRef, "reserved_cpus": cfg.ReservedCPUs, "identities": specs,
			"as_understood_by_the_plugin": fmt.Sprintf("cpus=%d numa_nodes=%d reserved=%v kubelet_numa_policy=%q max_ref=%d", cfg.opts.CPUTopology.NumCPUs, len(cfg.opts.NUMANodeResources), cfg.opts.ReservedCPUs.ToSlice(), cfg.opts.NUMATopologyPolicy, cfg.MaxRef)}
		b := &mc.BFS{Res: res, Env: sub, New: func() mc.System { return c19NewSys(cfg, base) }, NumOps: len(cfg.Pods) * c19OpsPerIdent,
			OpName: cfg.opName, MaxDepth: env.Pick(4, 6), Repeats: 0}
		b.Run()
		if env.Replay == "" {
			for _, p := range cfg.Pods {
				if res.Counters["bind_with_allocation_"+p.Name] == 0 && res.Counters["bind_without_allocation"] == 0 {
					res.Diag("vacuity warning: identity " + p.Name + " never got an allocation")
				}
			}
		}
		env.Emit(res)
	}
	if env.Replay == "" { // its witnesses are described, not machine-replayed (see numa_repro_test.go.txt)
		c19TopologyOrder(env, base, cfgs)
	}
}

// c19TopologyOrder: the NodeResourceTopology object is one more surviving object whose informer (started together with
// the pod informer, cmd/koord-scheduler/app/server.go step 3) delivers independently of the pod informer. For every
// subset of the identities bound in index order, every permutation of {surviving objects, NodeResourceTopology}.
func c19TopologyOrder(env *mc.Env, base *c19Base, cfgs []*c19Cfg) {
	res := mc.NewResult("C19", "numa-topology-order", "enumeration")
	res.Rule = "per configuration: every subset of the identities bound in index order on the real plugin; restart with every permutation of the add events of the surviving objects AND the node's NodeResourceTopology; distinct = distinct (configuration, subset, order) with at least one allocation held"
	res.Assumptions = []string{
		"the pod informer and the NodeResourceTopology informer of a starting scheduler are started together and deliver independently (cmd/koord-scheduler/app/server.go, startInformersAndWaitForSync step 3; ForceSyncFromInformer only registers the handler), so a pod may be delivered before the topology of its node",
	}
	// If the plugin declares its NodeResourceTopology informer factory as a plugin informer factory (started and synced
	// before the main informers), pod-before-topology is not producible and only topology-first orders are enumerated.
	_, topologyFirstGuaranteed := interface{}(base.pl).(frameworkext.InformerFactoryProvider)
	res.Bounds = map[string]any{"topology_first_guaranteed_by_startup_contract": topologyFirstGuaranteed}
	ds := mc.NewDistinctSet()
	for _, cfg := range cfgs {
		cfg := cfg
		saved := cfg.res
		cfg.res = res
		for mask := 0; mask < 1<<uint(len(cfg.Pods)); mask++ {
			s := c19NewSys(cfg, base)
			for i := range cfg.Pods {
				if mask&(1<<uint(i)) != 0 {
					s.Apply(i*c19OpsPerIdent+c19OpBind, false)
				}
			}
			objs := s.survivors()
			holding := 0
			for _, id := range objs {
				if id.holds() {
					holding++
				}
			}
			live := c19Render(s.rm.GetNodeAllocation(cfg.Node))
			liveAvail := c19AvailOf(s.rm, s.pl.topologyOptionsManager, cfg.Node)
			n := len(objs)
			mc.Permutations(n+1, func(p []int) {
				seq := make([]c19Event, n+1)
				topoAt := 0
				for i, who := range p {
					if who == n {
						seq[i], topoAt = c19Event{c19EvTopology, 0}, i
					} else {
						seq[i] = c19Event{c19EvAdd, who}
					}
				}
				if topologyFirstGuaranteed && topoAt != 0 {
					return
				}
				r := s.newRestart(objs, false)
				for _, ev := range seq {
					r.deliver(ev)
				}
				res.Evaluations++
				where := c19SeqString(objs, seq)
				seen := map[string]bool{}
				var early []string
				firstWhat := ""
				s.judge(r, live, liveAvail, where, func(key string, what func() string) {
					if seen[key] {
						return
					}
					seen[key] = true
					if topoAt != 0 {
						// one class for everything that goes wrong because an object overtook the topology
						early = append(early, key)
						if firstWhat == "" {
							firstWhat = what()
						}
						return
					}
					res.Violate(mc.Violation{Key: "C19|numa|" + key, What: what(), Replay: map[string]any{"configuration": cfg.Name, "bound": s.refString(), "delivery": where}})
				})
				if len(early) > 0 {
					sort.Strings(early)
					key := "object-delivered-before-topology|other-difference"
					if seen["rebuilt-ne-live|pod-record-missing"] {
						key = "object-delivered-before-topology|allocation-not-rebuilt"
					}
					res.Violate(mc.Violation{Key: "C19|numa|" + key, What: fmt.Sprintf("an object delivered before the NodeResourceTopology of its node; violated clauses: %v\nfirst: %s", early, firstWhat),
						Replay: map[string]any{"configuration": cfg.Name, "bound": s.refString(), "delivery": where}})
				}
				if topoAt == 0 {
					res.Count("orders_topology_first", 1)
				} else {
					res.Count("orders_with_an_object_before_the_topology", 1)
					for _, ev := range seq[:topoAt] {
						if objs[ev.who].holds() {
							res.Count("orders_with_an_allocation_holder_before_the_topology", 1)
							break
						}
					}
				}
				if holding > 0 {
					ds.Add(fmt.Sprintf("%s|%d|%s", cfg.Name, mask, where))
				}
			})
		}
		cfg.res = saved
	}
	res.Distinct = ds.Len()
	res.Traces = res.Evaluations
	res.Exhaustive = true
	env.Emit(res)
}
