package loadaware

// C18 — shared part of the harness: the input model (cluster snapshot of one Balance round), the construction of
// the real LowNodeLoad plugin as a struct literal around map-backed fakes, and the reference oracle written from
// the property statement (plain int64 / big.Rat arithmetic, never calling into the code under check).
// See /verif/DESIGN.md §4 C18.

import (
	"context"
	"fmt"
	"math/big"
	"sort"
	"strings"
	"time"

	gocache "github.com/patrickmn/go-cache"
	corev1 "k8s.io/api/core/v1"
	apierrors "k8s.io/apimachinery/pkg/api/errors"
	"k8s.io/apimachinery/pkg/api/resource"
	metav1 "k8s.io/apimachinery/pkg/apis/meta/v1"
	"k8s.io/apimachinery/pkg/labels"
	"k8s.io/apimachinery/pkg/runtime/schema"
	"k8s.io/apimachinery/pkg/util/sets"

	"github.com/koordinator-sh/koordinator/apis/extension"
	slov1alpha1 "github.com/koordinator-sh/koordinator/apis/slo/v1alpha1"
	deschedulerconfig "github.com/koordinator-sh/koordinator/pkg/descheduler/apis/config"
	"github.com/koordinator-sh/koordinator/pkg/descheduler/apis/config/validation"
	"github.com/koordinator-sh/koordinator/pkg/descheduler/framework"
	podutil "github.com/koordinator-sh/koordinator/pkg/descheduler/pod"
	"github.com/koordinator-sh/koordinator/pkg/descheduler/utils/anomaly"
	"github.com/koordinator-sh/koordinator/pkg/zzverif/mc"
)

const (
	c18Mi          = int64(1) << 20
	c18ExcludedNS  = "c18-excluded"
	c18SelectLabel = "c18/evictable"
	c18TierNode    = 0
	c18TierProd    = 1
	c18FlagOK      = 0 // passes the evictor's filters
	c18FlagRej     = 1 // rejected by the filters (evictor filter or excluded namespace, see c18Cfg.RejMech)
	c18FlagDyn     = 2 // passes the evictor's filter only while no eviction succeeded in this round (limit-style filter)
	c18FlagNoMet   = 3 // passes the filters, the NodeMetric carries no entry for the pod
	c18MetFresh    = 0 // NodeMetric updated now
	c18MetExpired  = 1 // NodeMetric updated 24 h ago (expiration is 180 s)
	c18MetMissing  = 2 // no NodeMetric object
	c18MetNoStatus = 3 // NodeMetric object without status.nodeMetric
)

var c18ResNames = [2]corev1.ResourceName{corev1.ResourceCPU, corev1.ResourceMemory}
var c18TierNames = [2]string{"node", "prod"}

type c18Vec [2]int64 // cpu (milli), memory (bytes)

func (v c18Vec) add(o c18Vec) c18Vec { return c18Vec{v[0] + o[0], v[1] + o[1]} }
func (v c18Vec) sub(o c18Vec) c18Vec { return c18Vec{v[0] - o[0], v[1] - o[1]} }

// c18Pod is one pod assigned to a node together with the usage its NodeMetric entry reports.
type c18Pod struct {
	CPU  int64 `json:"cpu"`
	Mem  int64 `json:"mem"`
	Prod bool  `json:"prod"`
	Flag int   `json:"flag"`
}

func (p c18Pod) hasMetric() bool { return p.Flag != c18FlagNoMet }
func (p c18Pod) usage() c18Vec {
	if !p.hasMetric() {
		return c18Vec{}
	}
	return c18Vec{p.CPU, p.Mem}
}

// c18Node is one node of the snapshot. The measured usage of the node is Sys + Σ pod metrics (self-consistent
// NodeMetric: nodeUsage = systemUsage + Σ podUsage), so "measured usage" has one meaning whichever field is read.
type c18Node struct {
	Alloc   c18Vec   `json:"alloc"`  // raw allocatable
	Amp     int64    `json:"amp"`    // >1: status.allocatable is Amp x raw and the raw value sits in the annotation
	Metric  int      `json:"metric"` // c18Met*
	Unsched bool     `json:"unsched"`
	Sys     c18Vec   `json:"sys"`
	Pods    []c18Pod `json:"pods"`
}

func (n *c18Node) valid() bool { return n.Metric == c18MetFresh }
func (n *c18Node) use(tier int) c18Vec {
	var u c18Vec
	if tier == c18TierNode {
		u = n.Sys
	}
	for _, p := range n.Pods {
		if tier == c18TierNode || p.Prod {
			u = u.add(p.usage())
		}
	}
	return u
}

type c18Round struct {
	Nodes []c18Node `json:"nodes"`
}

// c18Cfg is the plugin configuration of a case. Percent values < 0 mean "not configured".
type c18Cfg struct {
	Low       [2]int `json:"low"`
	High      [2]int `json:"high"`
	ProdLow   [2]int `json:"prodLow"`
	ProdHigh  [2]int `json:"prodHigh"`
	Deviation bool   `json:"deviation"`
	NumNodes  int32  `json:"numberOfNodes"`
	NodeFit   bool   `json:"nodeFit"`
	AnomalyK  uint32 `json:"anomalyK"` // 0: no anomaly condition
	AnomalyN  uint32 `json:"anomalyN"`
	RejMech   int    `json:"rejMech"`  // how Flag==c18FlagRej is realised: 0 evictor filter, 1 excluded namespace, 2 pod selector mismatch
	FailMask  uint32 `json:"failMask"` // bit i set: the i-th Evict call of a round returns false
}

func (c *c18Cfg) pct(tier, kind, r int) int {
	switch {
	case tier == c18TierNode && kind == 0:
		return c.Low[r]
	case tier == c18TierNode:
		return c.High[r]
	case kind == 0:
		return c.ProdLow[r]
	}
	return c.ProdHigh[r]
}

func (c *c18Cfg) configured(tier, r int) bool { return c.pct(tier, 0, r) >= 0 }
func (c *c18Cfg) tierConfigured(tier int) bool {
	return c.configured(tier, 0) || c.configured(tier, 1)
}

func (c *c18Cfg) String() string {
	s := fmt.Sprintf("low%v high%v", c.Low, c.High)
	if c.tierConfigured(c18TierProd) {
		s += fmt.Sprintf(" prodLow%v prodHigh%v", c.ProdLow, c.ProdHigh)
	}
	if c.Deviation {
		s += " deviation"
	}
	return s + fmt.Sprintf(" numberOfNodes=%d nodeFit=%v anomaly(k=%d,n=%d) rejMech=%d failMask=%b", c.NumNodes, c.NodeFit, c.AnomalyK, c.AnomalyN, c.RejMech, c.FailMask)
}

// ---------------------------------------------------------------------------------------------------------------
// fakes: handle, evictor, lister

type c18Call struct {
	Node       int  `json:"node"`
	Pod        int  `json:"pod"`
	OK         bool `json:"ok"`
	FilterPass bool `json:"filterPass"`
	Unknown    bool `json:"unknown,omitempty"`
}

type c18Evictor struct {
	static   map[string]bool   // pod key -> rejected by the configured namespace / pod-selector rule
	flags    map[string]int    // pod key -> flag
	where    map[string][2]int // pod key -> node index, pod index
	failMask uint32
	failAll  bool
	calls    []c18Call
	okCount  int
}

func c18PodKey(p *corev1.Pod) string { return p.Namespace + "/" + p.Name }

func (e *c18Evictor) Filter(pod *corev1.Pod) bool {
	switch e.flags[c18PodKey(pod)] {
	case c18FlagRej:
		return false
	case c18FlagDyn:
		return e.okCount == 0
	}
	return true
}

func (e *c18Evictor) PreEvictionFilter(pod *corev1.Pod) bool { return true }

func (e *c18Evictor) Evict(ctx context.Context, pod *corev1.Pod, _ framework.EvictOptions) bool {
	idx := len(e.calls)
	w, known := e.where[c18PodKey(pod)]
	c := c18Call{Node: w[0], Pod: w[1], Unknown: !known}
	// what the filters say about the pod at this very moment: the evictor's own (possibly dynamic) filter and the
	// namespace / pod-selector rule the harness configured for pods flagged as rejected
	c.FilterPass = e.Filter(pod) && !e.static[c18PodKey(pod)]
	c.OK = !e.failAll && (idx >= 32 || e.failMask&(1<<uint(idx)) == 0)
	if c.OK {
		e.okCount++
	}
	e.calls = append(e.calls, c)
	return c.OK
}

type c18Handle struct {
	framework.Handle // nil: any method the seam is not expected to call panics
	ev               *c18Evictor
	pods             map[string][]*corev1.Pod
}

func (h *c18Handle) Evictor() framework.Evictor { return h.ev }
func (h *c18Handle) GetPodsAssignedToNodeFunc() framework.GetPodsAssignedToNodeFunc {
	return func(nodeName string, filter framework.FilterFunc) ([]*corev1.Pod, error) {
		out := make([]*corev1.Pod, 0, len(h.pods[nodeName]))
		for _, p := range h.pods[nodeName] {
			if filter == nil || filter(p) {
				out = append(out, p)
			}
		}
		return out, nil
	}
}

type c18Lister struct {
	m map[string]*slov1alpha1.NodeMetric
}

func (l *c18Lister) List(labels.Selector) ([]*slov1alpha1.NodeMetric, error) {
	var out []*slov1alpha1.NodeMetric
	for _, k := range mc.SortedKeys(l.m) {
		out = append(out, l.m[k])
	}
	return out, nil
}

func (l *c18Lister) Get(name string) (*slov1alpha1.NodeMetric, error) {
	if nm, ok := l.m[name]; ok {
		return nm, nil
	}
	return nil, apierrors.NewNotFound(schema.GroupResource{Group: "slo.koordinator.sh", Resource: "nodemetrics"}, name)
}

// ---------------------------------------------------------------------------------------------------------------
// building the real objects of one round

func c18RL(v c18Vec) corev1.ResourceList {
	return corev1.ResourceList{
		corev1.ResourceCPU:    *resource.NewMilliQuantity(v[0], resource.DecimalSI),
		corev1.ResourceMemory: *resource.NewQuantity(v[1], resource.BinarySI),
	}
}

var c18NodeNames, c18PodNames = func() ([]string, [][]string) {
	var nn []string
	var pn [][]string
	for i := 0; i < 8; i++ {
		nn = append(nn, fmt.Sprintf("n%d", i))
		var row []string
		for j := 0; j < 8; j++ {
			row = append(row, fmt.Sprintf("n%d-p%d", i, j))
		}
		pn = append(pn, row)
	}
	return nn, pn
}()

// c18Load replaces the contents of the fakes by the snapshot rd and returns the node objects handed to Balance.
func c18Load(cfg *c18Cfg, rd *c18Round, h *c18Handle, l *c18Lister, applyPod func(*corev1.Pod)) []*corev1.Node {
	now := time.Now()
	h.pods = make(map[string][]*corev1.Pod, len(rd.Nodes))
	h.ev.flags = map[string]int{}
	h.ev.static = map[string]bool{}
	h.ev.where = map[string][2]int{}
	h.ev.calls = nil
	h.ev.okCount = 0
	h.ev.failMask = cfg.FailMask
	l.m = make(map[string]*slov1alpha1.NodeMetric, len(rd.Nodes))
	nodes := make([]*corev1.Node, 0, len(rd.Nodes))
	for i := range rd.Nodes {
		n := &rd.Nodes[i]
		name := c18NodeNames[i]
		alloc := c18RL(n.Alloc)
		alloc[corev1.ResourcePods] = *resource.NewQuantity(110, resource.DecimalSI)
		node := &corev1.Node{
			ObjectMeta: metav1.ObjectMeta{Name: name, Labels: map[string]string{}},
			Spec:       corev1.NodeSpec{Unschedulable: n.Unsched},
			Status:     corev1.NodeStatus{Allocatable: alloc, Capacity: alloc},
		}
		if n.Amp > 1 {
			amp := c18RL(c18Vec{n.Alloc[0] * n.Amp, n.Alloc[1]})
			amp[corev1.ResourcePods] = alloc[corev1.ResourcePods]
			node.Status.Allocatable = amp
			extension.SetNodeRawAllocatable(node, c18RL(n.Alloc))
		}
		nodes = append(nodes, node)
		var pms []*slov1alpha1.PodMetricInfo
		for j, p := range n.Pods {
			pod := &corev1.Pod{
				ObjectMeta: metav1.ObjectMeta{Namespace: "default", Name: c18PodNames[i][j], Labels: map[string]string{}},
				Spec:       corev1.PodSpec{NodeName: name},
				Status:     corev1.PodStatus{Phase: corev1.PodRunning},
			}
			if p.Prod {
				pod.Labels[extension.LabelPodPriorityClass] = string(extension.PriorityProd)
			} else {
				pod.Labels[extension.LabelPodPriorityClass] = string(extension.PriorityBatch)
			}
			flag := p.Flag
			static := false
			switch cfg.RejMech {
			case 1:
				if flag == c18FlagRej {
					pod.Namespace = c18ExcludedNS
					flag, static = c18FlagOK, true // the evictor's own filter has no objection; the namespace rule rejects
				}
			case 2:
				if flag == c18FlagRej {
					flag, static = c18FlagOK, true // no label: the plugin's pod selector does not match
				} else {
					pod.Labels[c18SelectLabel] = "true"
				}
			}
			if applyPod != nil {
				applyPod(pod)
			}
			key := c18PodKey(pod)
			if static {
				h.ev.static[key] = true
			}
			h.ev.flags[key] = flag
			h.ev.where[key] = [2]int{i, j}
			h.pods[name] = append(h.pods[name], pod)
			if p.hasMetric() {
				pms = append(pms, &slov1alpha1.PodMetricInfo{Namespace: pod.Namespace, Name: pod.Name,
					PodUsage: slov1alpha1.ResourceMap{ResourceList: c18RL(c18Vec{p.CPU, p.Mem})}})
			}
		}
		if n.Metric == c18MetMissing {
			continue
		}
		nm := &slov1alpha1.NodeMetric{ObjectMeta: metav1.ObjectMeta{Name: name}}
		ts := now
		if n.Metric == c18MetExpired {
			ts = now.Add(-24 * time.Hour)
		}
		nm.Status.UpdateTime = &metav1.Time{Time: ts}
		if n.Metric != c18MetNoStatus {
			nm.Status.NodeMetric = &slov1alpha1.NodeMetricInfo{
				NodeUsage:   slov1alpha1.ResourceMap{ResourceList: c18RL(n.use(c18TierNode))},
				SystemUsage: slov1alpha1.ResourceMap{ResourceList: c18RL(n.Sys)},
			}
			nm.Status.PodsMetric = pms
		}
		l.m[name] = nm
	}
	return nodes
}

func c18Thresholds(p [2]int) deschedulerconfig.ResourceThresholds {
	var t deschedulerconfig.ResourceThresholds
	for r := 0; r < 2; r++ {
		if p[r] >= 0 {
			if t == nil {
				t = deschedulerconfig.ResourceThresholds{}
			}
			t[c18ResNames[r]] = deschedulerconfig.Percentage(p[r])
		}
	}
	return t
}

func c18Args(cfg *c18Cfg) *deschedulerconfig.LowNodeLoadArgs {
	exp := int64(180)
	pool := deschedulerconfig.LowNodeLoadNodePool{
		Name:                   "pool",
		UseDeviationThresholds: cfg.Deviation,
		LowThresholds:          c18Thresholds(cfg.Low),
		HighThresholds:         c18Thresholds(cfg.High),
		ProdLowThresholds:      c18Thresholds(cfg.ProdLow),
		ProdHighThresholds:     c18Thresholds(cfg.ProdHigh),
		ResourceWeights:        map[corev1.ResourceName]int64{corev1.ResourceCPU: 1, corev1.ResourceMemory: 1},
	}
	if cfg.AnomalyK > 0 {
		// Timeout of the anomaly state: a day, so that no verdict depends on the wall clock
		pool.AnomalyCondition = &deschedulerconfig.LoadAnomalyCondition{Timeout: metav1.Duration{Duration: 24 * time.Hour},
			ConsecutiveAbnormalities: cfg.AnomalyK, ConsecutiveNormalities: cfg.AnomalyN}
	}
	args := &deschedulerconfig.LowNodeLoadArgs{
		NumberOfNodes:               cfg.NumNodes,
		NodeFit:                     cfg.NodeFit,
		NodeMetricExpirationSeconds: &exp,
		DetectorCacheTimeout:        &metav1.Duration{Duration: 24 * time.Hour},
		NodePools:                   []deschedulerconfig.LowNodeLoadNodePool{pool},
	}
	switch cfg.RejMech {
	case 1:
		args.EvictableNamespaces = &deschedulerconfig.Namespaces{Exclude: []string{c18ExcludedNS}}
	case 2:
		args.PodSelectors = []deschedulerconfig.LowNodeLoadPodSelector{{Name: "evictable",
			Selector: &metav1.LabelSelector{MatchLabels: map[string]string{c18SelectLabel: "true"}}}}
	}
	if err := validation.ValidateLowLoadUtilizationArgs(nil, args); err != nil {
		panic(fmt.Sprintf("c18: harness configuration rejected by the plugin's own validation: %v", err))
	}
	return args
}

// c18NewPlugin builds the plugin exactly as NewLowNodeLoad does after its informer set-up: same filter
// composition, same two detector caches (TTL a day, no janitor goroutine).
func c18NewPlugin(cfg *c18Cfg) (*LowNodeLoad, *c18Handle, *c18Lister) {
	h := &c18Handle{ev: &c18Evictor{}}
	l := &c18Lister{}
	args := c18Args(cfg)
	podSelectorFn, err := filterPods(args.PodSelectors)
	if err != nil {
		panic(err)
	}
	var excluded, included sets.String
	if args.EvictableNamespaces != nil {
		excluded = sets.NewString(args.EvictableNamespaces.Exclude...)
		included = sets.NewString(args.EvictableNamespaces.Include...)
	}
	podFilter, err := podutil.NewOptions().
		WithFilter(podutil.WrapFilterFuncs(h.Evictor().Filter, podSelectorFn)).
		WithoutNamespaces(excluded).
		WithNamespaces(included).
		BuildFilterFunc()
	if err != nil {
		panic(err)
	}
	pl := &LowNodeLoad{
		handle:               h,
		podFilter:            podFilter,
		nodeMetricLister:     l,
		args:                 args,
		nodeAnomalyDetectors: gocache.New(args.DetectorCacheTimeout.Duration, 0),
		prodAnomalyDetectors: gocache.New(args.DetectorCacheTimeout.Duration, 0),
	}
	return pl, h, l
}

// c18RunRound executes one Balance round on the real code and returns the recorded Evict calls.
func c18RunRound(pl *LowNodeLoad, h *c18Handle, l *c18Lister, cfg *c18Cfg, rd *c18Round) []c18Call {
	nodes := c18Load(cfg, rd, h, l, nil)
	pl.Balance(context.Background(), nodes)
	return h.ev.calls
}

// ---------------------------------------------------------------------------------------------------------------
// reference: usage / threshold table recomputed from the inputs

type c18Band struct{ lo, hi int64 } // the threshold quantity the code may have computed lies in [lo, hi]

type c18Ref struct {
	n     int
	valid []bool
	use   [2][]c18Vec     // tier -> node -> usage
	low   [2][][2]c18Band // tier -> node -> resource
	high  [2][][2]c18Band
	cfgd  [2][2]bool
	over  [2][]bool // measured usage above the high threshold in a thresholded resource (widest reading)
	under [2][]bool // measured usage at or below every low threshold (widest reading), schedulable
	// under the documented reading of NumberOfNodes: node-low, prod-low (unset prod threshold = 100 %) or both
	countedLow []bool
}

var c18Eps = big.NewRat(1, 1000)

// c18Floor returns the band of int64(float64(pct)*0.01*float64(cap)) for an exact rational percentage: the float
// product is within 1e-3 of the exact value x for every magnitude used here (cap < 2^36, relative error of three
// float64 operations plus the accumulated error of the average < 1e-13), hence the truncation is floor(x) unless x
// is within 1e-3 of an integer, where either neighbour is accepted (the "rounding band of one unit").
func c18Floor(x *big.Rat) c18Band {
	fl := func(r *big.Rat) int64 {
		q := new(big.Int).Div(r.Num(), r.Denom()) // Euclidean division: floor for positive denominators
		return q.Int64()
	}
	return c18Band{fl(new(big.Rat).Sub(x, c18Eps)), fl(new(big.Rat).Add(x, c18Eps))}
}

// c18StaticBand is c18Floor for x = pct*cap/100 with integer pct, in plain integers.
func c18StaticBand(pct int, cap int64) c18Band {
	num := int64(pct) * cap
	q := num / 100
	if num%100 == 0 {
		return c18Band{q - 1, q}
	}
	return c18Band{q, q}
}

func c18Clamp(x *big.Rat) *big.Rat {
	if x.Sign() < 0 {
		return new(big.Rat)
	}
	if x.Cmp(big.NewRat(100, 1)) > 0 {
		return big.NewRat(100, 1)
	}
	return x
}

func c18Compute(cfg *c18Cfg, rd *c18Round) *c18Ref {
	n := len(rd.Nodes)
	ref := &c18Ref{n: n, valid: make([]bool, n), countedLow: make([]bool, n)}
	nValid := 0
	for t := 0; t < 2; t++ {
		ref.use[t] = make([]c18Vec, n)
		ref.low[t] = make([][2]c18Band, n)
		ref.high[t] = make([][2]c18Band, n)
		ref.over[t] = make([]bool, n)
		ref.under[t] = make([]bool, n)
		for r := 0; r < 2; r++ {
			ref.cfgd[t][r] = cfg.configured(t, r)
		}
	}
	for i := range rd.Nodes {
		ref.valid[i] = rd.Nodes[i].valid()
		if ref.valid[i] {
			nValid++
		}
		for t := 0; t < 2; t++ {
			ref.use[t][i] = rd.Nodes[i].use(t)
		}
	}
	// average usage percentage over the nodes that have a measurement (deviation mode)
	var avg [2][2]*big.Rat
	if cfg.Deviation && nValid > 0 {
		for t := 0; t < 2; t++ {
			for r := 0; r < 2; r++ {
				s := new(big.Rat)
				for i := range rd.Nodes {
					if ref.valid[i] {
						s.Add(s, big.NewRat(100*ref.use[t][i][r], rd.Nodes[i].Alloc[r]))
					}
				}
				avg[t][r] = s.Quo(s, big.NewRat(int64(nValid), 1))
			}
		}
	}
	for i := range rd.Nodes {
		if !ref.valid[i] {
			continue
		}
		nd := &rd.Nodes[i]
		for t := 0; t < 2; t++ {
			for r := 0; r < 2; r++ {
				full := c18Band{nd.Alloc[r], nd.Alloc[r]}
				if !ref.cfgd[t][r] {
					// an unconfigured resource is never above and never below a threshold that matters
					ref.low[t][i][r], ref.high[t][i][r] = full, full
					continue
				}
				lp, hp := cfg.pct(t, 0, r), cfg.pct(t, 1, r)
				if !cfg.Deviation {
					ref.low[t][i][r] = c18StaticBand(lp, nd.Alloc[r])
					ref.high[t][i][r] = c18StaticBand(hp, nd.Alloc[r])
					continue
				}
				cap := big.NewRat(nd.Alloc[r], 100)
				lo := c18Clamp(new(big.Rat).Sub(avg[t][r], big.NewRat(int64(lp), 1)))
				hi := c18Clamp(new(big.Rat).Add(avg[t][r], big.NewRat(int64(hp), 1)))
				ref.low[t][i][r] = c18Floor(lo.Mul(lo, cap))
				ref.high[t][i][r] = c18Floor(hi.Mul(hi, cap))
			}
		}
		for t := 0; t < 2; t++ {
			if !cfg.tierConfigured(t) {
				continue
			}
			under := !nd.Unsched
			for r := 0; r < 2; r++ {
				if !ref.cfgd[t][r] {
					continue
				}
				if ref.use[t][i][r] > ref.high[t][i][r].lo {
					ref.over[t][i] = true
				}
				if ref.use[t][i][r] > ref.low[t][i][r].hi {
					under = false
				}
			}
			ref.under[t][i] = under
		}
		// documented reading of NumberOfNodes ("sum of nodes with low node utilization, low prod utilization, and
		// both"); a prod threshold that is not configured is 100 % of the allocatable (deviation mode: likewise)
		prodLow, overStrict := !nd.Unsched, false
		for r := 0; r < 2; r++ {
			lim := nd.Alloc[r]
			if ref.cfgd[c18TierProd][r] {
				lim = ref.low[c18TierProd][i][r].hi
			}
			if ref.use[c18TierProd][i][r] > lim {
				prodLow = false
			}
		}
		// ... and a node that is above a high threshold beyond any rounding doubt is not an underused node
		for t := 0; t < 2; t++ {
			for r := 0; r < 2; r++ {
				if cfg.tierConfigured(t) && ref.cfgd[t][r] && ref.use[t][i][r] > ref.high[t][i][r].hi {
					overStrict = true
				}
			}
		}
		ref.countedLow[i] = (ref.under[c18TierNode][i] || prodLow) && !overStrict
	}
	return ref
}

func (ref *c18Ref) any(b []bool) bool {
	for _, x := range b {
		if x {
			return true
		}
	}
	return false
}

// headroom of the underused nodes of a tier: Σ (high threshold − usage) over the nodes under the low thresholds
func (ref *c18Ref) headroom(tier int) c18Vec {
	var h c18Vec
	for i := 0; i < ref.n; i++ {
		if ref.under[tier][i] {
			for r := 0; r < 2; r++ {
				h[r] += ref.high[tier][i][r].hi - ref.use[tier][i][r]
			}
		}
	}
	return h
}

type c18Finding struct {
	Clause string
	What   string
}

// c18Stats are vacuity observations of one judged round.
type c18Stats struct {
	calls, okCalls              int
	byTier                      [2]int
	estimateBinding             bool // a source node ended the round with its estimate back under the threshold after >= 1 eviction
	estimateStillOverAtCall2    bool // a second eviction from the same node was justified by a still-over estimate
	headroomBinding             bool // the round ended with the pool of a tier used up after >= 1 eviction
	premNoOver, premNoUnder     bool
	premAllUnder                bool
	overButNoTarget             bool // some node over, nobody underused
	rejectedSkipped             bool // a rejected pod sat on a node another pod was evicted from
	numNodesGate                bool // over + target existed, but the count of underused nodes <= NumberOfNodes
	anomalyHeldBack             bool // node over, target exists, but fewer than k consecutive rounds: no eviction seen
	anomalyReleased             bool // eviction from a node with >= k consecutive rounds
	numNodesQuirk               bool // gate passed although the count of nodes under the *node-level* low thresholds <= NumberOfNodes
	failedCall, noMetricEvicted bool
	hysteresisAccepted          bool // an eviction with a streak < k was accepted only because an abnormal episode was still unresolved
}

// c18Anom is the reference state of the anomaly clause, kept by the history harness from the inputs and the
// recorded calls alone (per tier and node):
//   - streak: number of consecutive rounds ending with the current one in which the node was MEASURED above its high
//     threshold (cut by a round in which it is measured not above, or not measured at all);
//   - open: the node is in an unresolved abnormal episode. An episode opens when the streak reaches the configured
//     ConsecutiveAbnormalities. It is resolved (a) by a drain that brought the node's running usage estimate back
//     under the high threshold ("it stops as soon as the node's estimated usage is back under the high threshold":
//     the overload is dealt with), or (b) by more than ConsecutiveNormalities consecutive rounds in which the node is
//     measured not above the threshold (the documented way out of the abnormal state; "more than" as the detector
//     documents it, the widest reading).
//
// An eviction is accepted when streak >= k, or - leniency for the configured hysteresis, which the statement does
// not describe - while an episode is open.
type c18Anom struct {
	streak   [2][]int
	open     [2][]bool
	normals  [2][]int
	lastNo   [2][]string // what the node looked like in the last round that cut its streak (witness class only)
	closedBy [2][]string // how the last episode was resolved (witness class only)
}

func c18NewAnom(n int) *c18Anom {
	a := &c18Anom{}
	for t := 0; t < 2; t++ {
		a.streak[t] = make([]int, n)
		a.open[t] = make([]bool, n)
		a.normals[t] = make([]int, n)
		a.lastNo[t] = make([]string, n)
		a.closedBy[t] = make([]string, n)
	}
	return a
}

// beginRound updates streaks / episodes from the measurements of the new round (before its evictions are judged).
func (a *c18Anom) beginRound(cfg *c18Cfg, ref *c18Ref) {
	for t := 0; t < 2; t++ {
		for i := 0; i < ref.n; i++ {
			switch {
			case ref.valid[i] && ref.over[t][i]:
				a.streak[t][i]++
				a.normals[t][i] = 0
				if a.streak[t][i] >= int(cfg.AnomalyK) && !a.open[t][i] {
					a.open[t][i] = true
					a.closedBy[t][i] = ""
				}
			case !ref.valid[i]:
				a.streak[t][i] = 0
				a.lastNo[t][i] = "no-metric"
			default:
				a.streak[t][i] = 0
				a.normals[t][i]++
				if a.open[t][i] && a.normals[t][i] > int(cfg.AnomalyN) {
					a.open[t][i] = false
					a.closedBy[t][i] = "normal-rounds"
				}
				if ref.under[t][i] {
					a.lastNo[t][i] = "underused"
				} else {
					a.lastNo[t][i] = "between-thresholds"
				}
			}
		}
	}
}

// endRound resolves the episodes of the nodes whose drain brought the running estimate back under the threshold.
func (a *c18Anom) endRound(cfg *c18Cfg, rd *c18Round, ref *c18Ref, calls []c18Call) (closed int) {
	n := ref.n
	var evicted [2][]c18Vec
	gone := make([]map[int]bool, n)
	for t := 0; t < 2; t++ {
		evicted[t] = make([]c18Vec, n)
	}
	for _, c := range calls {
		if c.Unknown || !c.OK || c.Node >= n || c.Pod >= len(rd.Nodes[c.Node].Pods) {
			continue
		}
		if gone[c.Node] == nil {
			gone[c.Node] = map[int]bool{}
		}
		gone[c.Node][c.Pod] = true
		pod := rd.Nodes[c.Node].Pods[c.Pod]
		evicted[c18TierNode][c.Node] = evicted[c18TierNode][c.Node].add(pod.usage())
		if pod.Prod {
			evicted[c18TierProd][c.Node] = evicted[c18TierProd][c.Node].add(pod.usage())
		}
	}
	for t := 0; t < 2; t++ {
		if !cfg.tierConfigured(t) {
			continue
		}
		for i := 0; i < n; i++ {
			if !(ref.valid[i] && ref.over[t][i] && a.open[t][i] && len(gone[i]) > 0) {
				continue
			}
			still := false
			for r := 0; r < 2; r++ {
				// back under beyond any rounding doubt: at or below the smallest value the threshold can have
				if ref.cfgd[t][r] && ref.use[t][i][r]-evicted[t][i][r] > ref.high[t][i][r].lo {
					still = true
				}
			}
			if still || evicted[t][i] == (c18Vec{}) {
				continue
			}
			// witness class: did the drain leave a pod on the node that passes the filters (in the prod tier: a prod pod)?
			left := false
			for j, p := range rd.Nodes[i].Pods {
				if !gone[i][j] && p.Flag != c18FlagRej && (t == c18TierNode || p.Prod) {
					left = true
				}
			}
			a.open[t][i] = false
			a.closedBy[t][i] = "drain"
			if !left {
				a.closedBy[t][i] = "drain-that-took-the-last-candidate-pod"
			}
			closed++
		}
	}
	return closed
}

// c18Judge checks the recorded Evict calls of one round against the statement. cons (optional) is the reference
// state of the anomaly clause for this round (after beginRound).
func c18Judge(cfg *c18Cfg, rd *c18Round, ref *c18Ref, calls []c18Call, cons *c18Anom) ([]c18Finding, c18Stats) {
	var out []c18Finding
	var st c18Stats
	add := func(clause, format string, a ...any) {
		out = append(out, c18Finding{clause, fmt.Sprintf(format, a...)})
	}
	n := ref.n
	var evicted [2][]c18Vec // per tier: Σ metrics of pods already evicted from the node (prod tier: prod pods only)
	for t := 0; t < 2; t++ {
		evicted[t] = make([]c18Vec, n)
	}
	var pool [2]c18Vec // Σ metrics of the pods evicted so far, per tier the source node is attributed to
	var head [2]c18Vec
	for t := 0; t < 2; t++ {
		head[t] = ref.headroom(t)
	}
	// headNow: the headroom a tier can still draw on. The headroom of a node that is underused in BOTH tiers is one
	// physical amount: what the node tier already moved there is gone for the prod tier too, so the prod tier's share of
	// the both-low nodes is at most their node-level headroom and at most what the node tier's pool has left (never
	// negative here: the reference stays at or above the code's own figure, which may go below zero after an overshoot).
	// Seed C18-7 skipped that cap when the node pass had left exactly nothing.
	headNow := func(t int) c18Vec {
		if t == c18TierNode || !cfg.tierConfigured(c18TierNode) {
			return head[t]
		}
		var prodOnly, prodBoth, nodeBoth c18Vec
		for i := 0; i < n; i++ {
			if !ref.under[c18TierProd][i] {
				continue
			}
			for r := 0; r < 2; r++ {
				h := ref.high[c18TierProd][i][r].hi - ref.use[c18TierProd][i][r]
				if ref.under[c18TierNode][i] {
					prodBoth[r] += h
					nodeBoth[r] += ref.high[c18TierNode][i][r].hi - ref.use[c18TierNode][i][r]
				} else {
					prodOnly[r] += h
				}
			}
		}
		var out c18Vec
		for r := 0; r < 2; r++ {
			share := prodBoth[r]
			if ref.cfgd[c18TierNode][r] {
				if nodeBoth[r] < share {
					share = nodeBoth[r]
				}
				if left := head[c18TierNode][r] - pool[c18TierNode][r]; left < share {
					share = left
				}
				if share < 0 {
					share = 0
				}
			}
			out[r] = prodOnly[r] + share
		}
		return out
	}
	evictedFrom := make([]int, n)
	stillOver := func(t, node int) (bool, string) {
		for r := 0; r < 2; r++ {
			if ref.cfgd[t][r] && ref.use[t][node][r]-evicted[t][node][r] > ref.high[t][node][r].lo {
				return true, ""
			}
		}
		return false, fmt.Sprintf("estimate %v = start %v - evicted %v vs high threshold %v", ref.use[t][node].sub(evicted[t][node]), ref.use[t][node], evicted[t][node], ref.high[t][node])
	}
	otherUnder := func(t, node int) bool {
		for m := 0; m < n; m++ {
			if m != node && ref.under[t][m] {
				return true
			}
		}
		return false
	}
	for i, c := range calls {
		st.calls++
		if c.Unknown || c.Node >= n || c.Pod >= len(rd.Nodes[c.Node].Pods) {
			add("evict-unknown-pod", "call %d evicts a pod that is not part of the snapshot", i)
			continue
		}
		pod := rd.Nodes[c.Node].Pods[c.Pod]
		var fails [2][]c18Finding
		for t := 0; t < 2; t++ {
			f := func(clause, format string, a ...any) {
				fails[t] = append(fails[t], c18Finding{clause, fmt.Sprintf(format, a...)})
			}
			if !cfg.tierConfigured(t) {
				f("tier-not-configured", "no %s thresholds configured", c18TierNames[t])
				continue
			}
			if !ref.valid[c.Node] {
				f("node-without-valid-metric", "node n%d has no fresh measurement (metric state %d)", c.Node, rd.Nodes[c.Node].Metric)
			} else if !ref.over[t][c.Node] {
				f("node-not-over-high", "node n%d usage %v is not above its high threshold %v at the start of the round", c.Node, ref.use[t][c.Node], ref.high[t][c.Node])
			} else if ok, why := stillOver(t, c.Node); !ok {
				f("estimate-back-under-high", "node n%d: %s", c.Node, why)
			}
			if !otherUnder(t, c.Node) {
				f("no-other-node-under-low", "no other node is under the low thresholds (under=%v)", ref.under[t])
			}
			hn := headNow(t)
			for r := 0; r < 2; r++ {
				if ref.cfgd[t][r] && hn[r]-pool[t][r] <= 0 {
					f("headroom-used-up", "headroom of the underused nodes in %s: %d (of %d before the other tier drew on the nodes underused in both) - already moved %d <= 0", c18ResNames[r], hn[r], head[t][r], pool[t][r])
					break
				}
			}
			if cons != nil && cfg.AnomalyK >= 2 && cons.streak[t][c.Node] < int(cfg.AnomalyK) && !cons.open[t][c.Node] {
				f("anomaly-not-consecutive", "node n%d was above its high threshold in only %d consecutive round(s) ending now, condition needs %d, and it is not in an unresolved abnormal episode (last episode resolved by: %q)", c.Node, cons.streak[t][c.Node], cfg.AnomalyK, cons.closedBy[t][c.Node])
			}
		}
		tier := -1
		for t := 0; t < 2; t++ {
			if len(fails[t]) == 0 {
				tier = t
				break
			}
		}
		if tier < 0 {
			// report against the tier in which the node is (or comes closest to being) a source
			rt := c18TierNode
			if !(ref.valid[c.Node] && ref.over[c18TierNode][c.Node]) && cfg.tierConfigured(c18TierProd) && ref.valid[c.Node] && ref.over[c18TierProd][c.Node] {
				rt = c18TierProd
			}
			f0 := fails[rt][0]
			add(f0.Clause+"|"+c18TierNames[rt], "Evict call %d (pod n%d-p%d %+v): %s", i, c.Node, c.Pod, pod, f0.What)
		} else {
			st.byTier[tier]++
			if evictedFrom[c.Node] > 0 {
				st.estimateStillOverAtCall2 = true
			}
			if cons != nil && cfg.AnomalyK >= 2 {
				st.anomalyReleased = true
				if cons.streak[tier][c.Node] < int(cfg.AnomalyK) {
					st.hysteresisAccepted = true
				}
			}
		}
		if !c.FilterPass {
			add("filter-rejected-pod", "Evict call %d: pod n%d-p%d %+v does not pass the evictor's filters at the call", i, c.Node, c.Pod, pod)
		}
		if !c.OK {
			st.failedCall = true
			continue
		}
		st.okCalls++
		evictedFrom[c.Node]++
		if !pod.hasMetric() {
			st.noMetricEvicted = true
			continue
		}
		at := c18TierProd
		if ref.valid[c.Node] && ref.over[c18TierNode][c.Node] {
			at = c18TierNode
		}
		pool[at] = pool[at].add(pod.usage())
		evicted[c18TierNode][c.Node] = evicted[c18TierNode][c.Node].add(pod.usage())
		if pod.Prod {
			evicted[c18TierProd][c.Node] = evicted[c18TierProd][c.Node].add(pod.usage())
		}
	}
	// round-level clauses
	anyOver := ref.any(ref.over[0]) || ref.any(ref.over[1])
	anyUnder := ref.any(ref.under[0]) || ref.any(ref.under[1])
	allUnder := true
	for i := 0; i < n; i++ {
		if !(ref.valid[i] && (ref.under[0][i] || ref.under[1][i]) && !ref.over[0][i] && !ref.over[1][i]) {
			allUnder = false
		}
	}
	counted, nodeLow := 0, 0
	for i := 0; i < n; i++ {
		if ref.countedLow[i] {
			counted++
		}
		if ref.under[0][i] {
			nodeLow++
		}
	}
	st.premNoOver, st.premNoUnder, st.premAllUnder = !anyOver, !anyUnder, allUnder
	st.overButNoTarget = anyOver && !anyUnder
	if len(calls) > 0 {
		if !anyOver {
			add("evicted-although-no-node-overloaded", "%d Evict call(s) although no node is above a high threshold", len(calls))
		}
		if !anyUnder {
			add("evicted-although-no-node-underused", "%d Evict call(s) although no node is under the low thresholds", len(calls))
		}
		if allUnder {
			add("evicted-although-all-nodes-underused", "%d Evict call(s) although every node is under the low thresholds", len(calls))
		}
		if counted <= int(cfg.NumNodes) {
			add("number-of-nodes", "%d Evict call(s) although only %d node(s) are underused (node-low, prod-low or both) and NumberOfNodes=%d", len(calls), counted, cfg.NumNodes)
		}
		if nodeLow <= int(cfg.NumNodes) && st.byTier[c18TierNode] > 0 {
			st.numNodesQuirk = true
		}
	} else if anyOver && anyUnder {
		if counted <= int(cfg.NumNodes) {
			st.numNodesGate = true
		}
		if cons != nil && cfg.AnomalyK >= 2 {
			st.anomalyHeldBack = true
		}
	}
	for node := 0; node < n; node++ {
		if evictedFrom[node] == 0 {
			continue
		}
		for t := 0; t < 2; t++ {
			if cfg.tierConfigured(t) && ref.over[t][node] {
				if ok, _ := stillOver(t, node); !ok {
					st.estimateBinding = true
				}
			}
		}
		for _, p := range rd.Nodes[node].Pods {
			if p.Flag == c18FlagRej {
				st.rejectedSkipped = true
			}
		}
	}
	for t := 0; t < 2; t++ {
		for r := 0; r < 2; r++ {
			if st.okCalls > 0 && ref.cfgd[t][r] && pool[t][r] > 0 && head[t][r]-pool[t][r] <= 0 {
				st.headroomBinding = true
			}
		}
	}
	return out, st
}

func (st *c18Stats) countInto(cnt func(string, int64)) {
	b := func(name string, v bool) {
		if v {
			cnt(name, 1)
		}
	}
	cnt("evict_calls_judged", int64(st.calls))
	cnt("evict_calls_succeeded", int64(st.okCalls))
	cnt("evict_calls_justified_by_node_tier", int64(st.byTier[0]))
	cnt("evict_calls_justified_by_prod_tier", int64(st.byTier[1]))
	b("rounds_with_evictions", st.calls > 0)
	b("rounds_stopped_by_estimate_back_under", st.estimateBinding)
	b("rounds_with_repeat_eviction_on_still_over_estimate", st.estimateStillOverAtCall2)
	b("rounds_ending_with_headroom_used_up", st.headroomBinding)
	b("premise_no_node_overloaded", st.premNoOver)
	b("premise_no_node_underused", st.premNoUnder)
	b("premise_all_nodes_underused", st.premAllUnder)
	b("rounds_overloaded_but_no_target", st.overButNoTarget)
	b("rounds_rejected_pod_left_on_source", st.rejectedSkipped)
	b("rounds_held_back_by_number_of_nodes", st.numNodesGate)
	b("rounds_with_failed_evict_call", st.failedCall)
	b("rounds_evicting_pod_without_metric", st.noMetricEvicted)
	b("rounds_anomaly_held_back", st.anomalyHeldBack)
	b("rounds_anomaly_released", st.anomalyReleased)
	b("rounds_eviction_accepted_only_by_unresolved_episode", st.hysteresisAccepted)
	b("diag_number_of_nodes_passed_with_fewer_node_low_nodes", st.numNodesQuirk)
}

// ---------------------------------------------------------------------------------------------------------------
// helpers shared by the parts

type c18Case struct {
	Cfg   c18Cfg   `json:"cfg"`
	Round c18Round `json:"round"`
}

func c18CopyRound(rd *c18Round) c18Round {
	out := c18Round{Nodes: make([]c18Node, len(rd.Nodes))}
	for i, n := range rd.Nodes {
		out.Nodes[i] = n
		out.Nodes[i].Pods = append([]c18Pod(nil), n.Pods...)
	}
	return out
}

func c18Key(part string, f c18Finding) string { return "C18|" + part + "|" + f.Clause }

// c18DetectorDump renders the detector caches canonically. Counters that cannot influence any later decision are
// capped (see the comment at the call site in hist_test.go).
func c18DetectorDump(c *gocache.Cache, cap uint32) string {
	items := c.Items()
	keys := make([]string, 0, len(items))
	for k := range items {
		keys = append(keys, k)
	}
	sort.Strings(keys)
	var sb strings.Builder
	for _, k := range keys {
		d := items[k].Object.(*anomaly.BasicDetector)
		cn := d.Counter()
		ca, cnm := cn.ConsecutiveAbnormalities, cn.ConsecutiveNormalities
		if ca > cap {
			ca = cap
		}
		if cnm > cap {
			cnm = cap
		}
		fmt.Fprintf(&sb, "%s:%s/a%d/n%d;", k, d.State(), ca, cnm)
	}
	return sb.String()
}
