package loadaware

// C18 single-round parts: exhaustive products of cluster snapshots x plugin configurations, each executed once on
// the real LowNodeLoad.Balance (struct-literal plugin, recording evictor) and judged call by call by c18Judge.

import (
	"encoding/binary"
	"fmt"
	"hash/fnv"
	"math/bits"
	"os"
	"regexp"
	"strings"
	"testing"
	"time"

	"github.com/koordinator-sh/koordinator/pkg/zzverif/mc"
)

const (
	c18LvlPct  = 0 // percent of the allocatable
	c18LvlLow  = 1 // low threshold quantity (cpu, node tier) + delta
	c18LvlHigh = 2 // high threshold quantity (cpu, node tier) + delta
	c18LvlHiP0 = 3 // high threshold quantity + usage of the node's first pod (+ delta): one eviction lands exactly on the threshold
)

type c18Level struct {
	kind  int
	pct   int
	delta int64
}

func (l c18Level) String() string {
	switch l.kind {
	case c18LvlPct:
		return fmt.Sprintf("%d%%", l.pct)
	case c18LvlLow:
		return fmt.Sprintf("LOW%+d", l.delta)
	case c18LvlHigh:
		return fmt.Sprintf("HIGH%+d", l.delta)
	}
	return fmt.Sprintf("HIGH+pod0%+d", l.delta)
}

// c18Target turns a level into the CPU usage the node is meant to show (static thresholds only).
func c18Target(cfg *c18Cfg, alloc int64, l c18Level, pods []c18Pod) int64 {
	var v int64
	switch l.kind {
	case c18LvlPct:
		v = int64(l.pct) * alloc / 100
	case c18LvlLow:
		v = int64(cfg.Low[0])*alloc/100 + l.delta
	case c18LvlHigh:
		v = int64(cfg.High[0])*alloc/100 + l.delta
	case c18LvlHiP0:
		v = int64(cfg.High[0])*alloc/100 + l.delta
		if len(pods) > 0 {
			v += pods[0].usage()[0]
		}
	}
	if v < 0 {
		v = 0
	}
	return v
}

// c18MkNode builds a node whose measured usage is max(target, Σ pod metrics): system usage fills the gap.
func c18MkNode(alloc c18Vec, target c18Vec, pods []c18Pod) c18Node {
	n := c18Node{Alloc: alloc, Pods: pods}
	var sum c18Vec
	for _, p := range pods {
		sum = sum.add(p.usage())
	}
	for r := 0; r < 2; r++ {
		if target[r] > sum[r] {
			n.Sys[r] = target[r] - sum[r]
		}
	}
	return n
}

func c18P(cpu int64, prod bool, flag int) c18Pod {
	p := c18Pod{CPU: cpu, Mem: cpu * c18Mi, Prod: prod, Flag: flag}
	if flag == c18FlagNoMet {
		p.CPU, p.Mem = 0, 0
	}
	return p
}

var (
	c18AllocA = c18Vec{7913, 16 << 30}  // thresholds 30/45/60 % are non-integral quantities: the code's value is exact
	c18AllocB = c18Vec{15890, 32 << 30} // 30 % and 60 % are integral quantities: one-unit rounding band applies
)

// c18Multisets enumerates all non-decreasing k-tuples over n symbols (flat, stride k).
func c18Multisets(n, k int) []uint8 {
	var out []uint8
	cur := make([]uint8, k)
	var rec func(pos, from int)
	rec = func(pos, from int) {
		if pos == k {
			out = append(out, cur...)
			return
		}
		for v := from; v < n; v++ {
			cur[pos] = uint8(v)
			rec(pos+1, v)
		}
	}
	rec(0, 0)
	return out
}

// c18PodMultisets: all multisets of size <= max over the pod kinds.
func c18PodMultisets(kinds []c18Pod, max int) [][]c18Pod {
	out := [][]c18Pod{nil}
	for k := 1; k <= max; k++ {
		ms := c18Multisets(len(kinds), k)
		for i := 0; i < len(ms); i += k {
			ps := make([]c18Pod, k)
			for j := 0; j < k; j++ {
				ps[j] = kinds[ms[i+j]]
			}
			out = append(out, ps)
		}
	}
	return out
}

type c18Part struct {
	name   string
	rule   string
	cfgs   []c18Cfg
	size   int64                                    // snapshots per configuration
	build  func(cfg *c18Cfg, i int64, rd *c18Round) // fills rd for snapshot i
	prep   func(cfg *c18Cfg) any                    // optional per-configuration tables
	buildP func(cfg *c18Cfg, tab any, i int64, rd *c18Round)
	bounds map[string]any
}

func c18Digest(cfg *c18Cfg, rd *c18Round, calls []c18Call) uint64 {
	h := fnv.New64a()
	var buf [8]byte
	w := func(vs ...int64) {
		for _, v := range vs {
			binary.LittleEndian.PutUint64(buf[:], uint64(v))
			h.Write(buf[:])
		}
	}
	b := func(x bool) int64 {
		if x {
			return 1
		}
		return 0
	}
	for r := 0; r < 2; r++ {
		w(int64(cfg.Low[r]), int64(cfg.High[r]), int64(cfg.ProdLow[r]), int64(cfg.ProdHigh[r]))
	}
	w(b(cfg.Deviation), int64(cfg.NumNodes), b(cfg.NodeFit), int64(cfg.AnomalyK), int64(cfg.AnomalyN), int64(cfg.RejMech), int64(cfg.FailMask))
	for _, n := range rd.Nodes {
		w(n.Alloc[0], n.Alloc[1], n.Amp, int64(n.Metric), b(n.Unsched), n.Sys[0], n.Sys[1], int64(len(n.Pods)))
		for _, p := range n.Pods {
			w(p.CPU, p.Mem, b(p.Prod), int64(p.Flag))
		}
	}
	w(-1)
	for _, c := range calls {
		w(int64(c.Node), int64(c.Pod), b(c.OK), b(c.FilterPass))
	}
	return h.Sum64()
}

// c18JudgeCase runs one (configuration, snapshot) on a fresh plugin and judges it.
func c18JudgeCase(res *mc.Result, part string, cfg *c18Cfg, rd *c18Round, cnt func(string, int64), ds *mc.DistinctSet) {
	pl, h, lister := c18NewPlugin(cfg)
	var calls []c18Call
	if ps := mc.Guard(func() { calls = c18RunRound(pl, h, lister, cfg, rd) }); ps != "" {
		res.Violate(mc.Violation{Key: "C18|" + part + "|panic", What: ps, Replay: c18Case{*cfg, c18CopyRound(rd)}})
		return
	}
	ref := c18Compute(cfg, rd)
	finds, st := c18Judge(cfg, rd, ref, calls, nil)
	st.countInto(cnt)
	for _, f := range finds {
		res.Violate(mc.Violation{Key: c18Key(part, f), What: fmt.Sprintf("%s; config {%s}; snapshot %+v; recorded calls %+v", f.What, cfg.String(), rd.Nodes, calls),
			Replay: c18Case{*cfg, c18CopyRound(rd)}})
	}
	if len(calls) > 0 && ds != nil {
		ds.AddHash(c18Digest(cfg, rd, calls))
	}
}

func c18RunPart(env *mc.Env, p *c18Part) {
	res := mc.NewResult("C18", p.name, "enumeration")
	res.Rule = p.rule
	res.Bounds = p.bounds
	if res.Bounds == nil {
		res.Bounds = map[string]any{}
	}
	res.Bounds["configurations"] = len(p.cfgs)
	res.Bounds["snapshots_per_configuration"] = p.size
	res.Assumptions = c18Assumptions
	ds := mc.NewDistinctSet()
	tabs := make([]any, len(p.cfgs))
	for i := range p.cfgs {
		if p.prep != nil {
			tabs[i] = p.prep(&p.cfgs[i])
		}
	}
	total := p.size * int64(len(p.cfgs))
	// the range is walked in a fixed stride permutation (i -> i*P mod total, P prime and coprime to total): complete
	// runs cover exactly the same set, a run capped by the time budget covers a spread instead of a corner
	stride := int64(1000003)
	for total%stride == 0 {
		stride = 999983
	}
	done, complete := env.ParallelRangeL(res, total, func(l *mc.Local, i int64) {
		i = c18MulMod(i, stride, total)
		ci := int(i / p.size)
		cfg := &p.cfgs[ci]
		var rd c18Round
		if p.buildP != nil {
			p.buildP(cfg, tabs[ci], i%p.size, &rd)
		} else {
			p.build(cfg, i%p.size, &rd)
		}
		l.Evals++
		c18JudgeCase(res, p.name, cfg, &rd, l.Count, ds)
		if i%250007 == 0 {
			res.Sample(fmt.Sprintf("config {%s} snapshot %+v", cfg.String(), rd.Nodes))
		}
	})
	res.Traces = res.Evaluations
	res.Distinct = ds.Len()
	res.Exhaustive = complete
	if !complete {
		res.Capped = fmt.Sprintf("time budget hit after %d of %d cases", done, total)
	}
	c18Vacuity(res, p.name)
	if n := res.Counters["diag_number_of_nodes_passed_with_fewer_node_low_nodes"]; n > 0 {
		res.Diag(fmt.Sprintf("not judged (outside the statement): in %d rounds the NumberOfNodes gate let evictions pass although no more than NumberOfNodes nodes were under the node-level low thresholds; the gate also counts nodes between the thresholds as 'prod-underused' because an unset prod low threshold defaults to 100 %%", n))
	}
	env.Emit(res)
}

// c18OnlyFilter: `bin/check C18 --only REGEX` with a regex that names no unit reaches the harness as VERIF_ONLY and
// selects parts by name (debugging aid).
func c18OnlyFilter() *regexp.Regexp {
	o := os.Getenv("VERIF_ONLY")
	if o == "" || o == "round" || o == "hist" {
		return nil
	}
	return regexp.MustCompile(o)
}

// c18MulMod computes a*b mod m without overflow for m < 2^62 (a < m, b < 2^20).
func c18MulMod(a, b, m int64) int64 {
	hi, lo := bits.Mul64(uint64(a), uint64(b))
	_, rem := bits.Div64(hi%uint64(m), lo, uint64(m))
	return int64(rem)
}

var c18Assumptions = []string{
	"NodeMetric objects are self-consistent (nodeUsage = systemUsage + sum of the reported pod usages); no host-application metrics, no metrics of pods that are not assigned to the node",
	"one node pool without node selector; ResourceWeights cpu=1 memory=1; NodeMetricExpirationSeconds=180 with metric timestamps either now or 24 h old (no verdict depends on the wall clock)",
	"pods carry no resource requests, node selectors or tolerations, nodes no taints: with NodeFit enabled only the usage-vs-threshold part of the fit check varies",
	"the evictor is a recording fake with Filter / PreEvictionFilter / per-call Evict result; the descheduler's eviction limiter and the migration controller are outside the seam",
	"node names carry no meaning for the plugin (no name-based ordering in the code), so snapshots are enumerated as multisets of node configurations where stated",
}

// c18Vacuity turns never-exercised clauses into a diagnostic that the reader of the evidence cannot miss.
func c18Vacuity(res *mc.Result, part string) {
	need := []string{"evict_calls_judged", "premise_no_node_overloaded"}
	if strings.HasPrefix(part, "round-") {
		need = append(need, "evict_calls_justified_by_node_tier", "evict_calls_justified_by_prod_tier", "rounds_stopped_by_estimate_back_under",
			"rounds_with_repeat_eviction_on_still_over_estimate", "rounds_ending_with_headroom_used_up", "rounds_rejected_pod_left_on_source",
			"premise_no_node_underused", "premise_all_nodes_underused", "rounds_overloaded_but_no_target")
	} else if strings.HasPrefix(part, "hist-k2") || strings.HasPrefix(part, "hist-k3") {
		need = append(need, "rounds_anomaly_held_back", "rounds_anomaly_released")
	}
	for _, k := range need {
		if res.Counters[k] == 0 {
			res.Diag("VACUITY WARNING: counter " + k + " is zero in part " + part)
		}
	}
}

// ---------------------------------------------------------------------------------------------------------------
// the parts

func c18CfgProduct(thr [][2][2]int, prod [][2][2]int, numNodes []int32, nodeFit []bool, fail []uint32, rej []int, dev bool) []c18Cfg {
	var out []c18Cfg
	for _, t := range thr {
		for _, p := range prod {
			for _, nn := range numNodes {
				for _, nf := range nodeFit {
					for _, fm := range fail {
						for _, rm := range rej {
							out = append(out, c18Cfg{Low: t[0], High: t[1], ProdLow: p[0], ProdHigh: p[1], Deviation: dev,
								NumNodes: nn, NodeFit: nf, FailMask: fm, RejMech: rm})
						}
					}
				}
			}
		}
	}
	return out
}

var (
	c18ThrCPU = [][2][2]int{{{30, -1}, {60, -1}}, {{45, -1}, {45, -1}}}
	c18ProdNo = [2][2]int{{-1, -1}, {-1, -1}}
	c18Prod   = [][2][2]int{c18ProdNo, {{10, -1}, {30, -1}}}
)

// gating part: symmetric nodes over a per-node alphabet of usage levels (incl. the threshold boundaries), metric
// states and small pod sets.
func c18GateAlphabet(cfg *c18Cfg, allocs []c18Vec, thorough bool) []c18Node {
	np, pr := false, true
	templates := [][]c18Pod{
		nil,
		{c18P(1600, np, c18FlagOK)},
		{c18P(1600, pr, c18FlagOK), c18P(400, np, c18FlagOK)},
		{c18P(1600, pr, c18FlagOK), c18P(1600, pr, c18FlagOK), c18P(400, np, c18FlagOK)},
		{c18P(400, pr, c18FlagOK), c18P(1600, np, c18FlagRej)},
		{c18P(1600, np, c18FlagOK), c18P(0, np, c18FlagNoMet), c18P(1600, pr, c18FlagDyn)},
	}
	levels := []c18Level{{c18LvlPct, 10, 0}, {c18LvlPct, 30, 0}, {c18LvlPct, 50, 0}, {c18LvlPct, 70, 0}, {c18LvlPct, 90, 0},
		{c18LvlLow, 0, 0}, {c18LvlLow, 0, 1}, {c18LvlHigh, 0, 0}, {c18LvlHigh, 0, 1}}
	var out []c18Node
	seen := map[string]bool{}
	push := func(n c18Node) {
		k := fmt.Sprintf("%+v", n)
		if !seen[k] {
			seen[k] = true
			out = append(out, n)
		}
	}
	for _, alloc := range allocs {
		for _, lv := range levels {
			for _, tp := range templates {
				push(c18MkNode(alloc, c18Vec{c18Target(cfg, alloc[0], lv, tp), alloc[1] / 2}, tp))
			}
		}
		two := []c18Pod{c18P(1600, np, c18FlagOK), c18P(1600, pr, c18FlagOK)}
		for _, pct := range []int{10, 90} {
			for _, ms := range []int{c18MetExpired, c18MetMissing, c18MetNoStatus} {
				n := c18MkNode(alloc, c18Vec{int64(pct) * alloc[0] / 100, alloc[1] / 2}, two)
				n.Metric = ms
				push(n)
			}
			n := c18MkNode(alloc, c18Vec{int64(pct) * alloc[0] / 100, alloc[1] / 2}, two)
			n.Unsched = true
			push(n)
			if thorough {
				n = c18MkNode(alloc, c18Vec{int64(pct) * alloc[0] / 100, alloc[1] / 2}, two)
				n.Amp = 2
				push(n)
			}
		}
	}
	return out
}

type c18GateTab struct {
	alpha []c18Node
}

func c18GatePart(name string, nodes int, allocs []c18Vec, thorough bool) *c18Part {
	cfgs := c18CfgProduct(c18ThrCPU, c18Prod, []int32{0, 1}, []bool{false, true}, []uint32{0}, []int{0}, false)
	// the alphabet size is the same for every configuration only up to de-duplication (LOW == HIGH when both are
	// 45 %); the multiset table is built for the largest one and entries beyond a configuration's alphabet are skipped
	maxA := 0
	for i := range cfgs {
		if a := len(c18GateAlphabet(&cfgs[i], allocs, thorough)); a > maxA {
			maxA = a
		}
	}
	ms := c18Multisets(maxA, nodes)
	p := &c18Part{name: name, cfgs: cfgs, size: int64(len(ms) / nodes)}
	p.prep = func(cfg *c18Cfg) any { return &c18GateTab{alpha: c18GateAlphabet(cfg, allocs, thorough)} }
	p.buildP = func(cfg *c18Cfg, tab any, i int64, rd *c18Round) {
		a := tab.(*c18GateTab).alpha
		rd.Nodes = rd.Nodes[:0]
		for j := 0; j < nodes; j++ {
			k := int(ms[int(i)*nodes+j])
			if k >= len(a) {
				k = len(a) - 1 // duplicate of another multiset: still a legitimate snapshot
			}
			n := a[k]
			rd.Nodes = append(rd.Nodes, n)
		}
	}
	p.rule = fmt.Sprintf("every multiset of %d node configurations over a per-node alphabet of <= %d (cpu usage level in {10,30,50,70,90}%% and {low, low+1m, high, high+1m} x 6 pod sets (prod/non-prod, filter-rejected, limit-style filter, missing pod metric) plus expired / missing / status-less NodeMetric and unschedulable nodes at 10%% and 90%%; allocatable %v) x thresholds {(30,60),(45,45)} x prod thresholds {off,(10,30)} x NumberOfNodes {0,1} x NodeFit {off,on}; non-trivial = at least one Evict call; distinct = distinct (input, call sequence)", nodes, maxA, allocs)
	p.bounds = map[string]any{"nodes": nodes, "node_alphabet": maxA}
	return p
}

// eviction-loop part: one richly populated node (every multiset of pods), a receiver and a third node.
func c18LoopPart(name string, thorough bool) *c18Part {
	fail := []uint32{0, 1, 2}
	rej := []int{0}
	if thorough {
		rej = []int{0, 1}
	}
	cfgs := c18CfgProduct(c18ThrCPU, c18Prod, []int32{0}, []bool{false, true}, fail, rej, false)
	np, pr := false, true
	var kindsFull, kindsSmall []c18Pod
	for _, cpu := range []int64{0, 400, 1600} {
		for _, prod := range []bool{np, pr} {
			for _, fl := range []int{c18FlagOK, c18FlagRej, c18FlagDyn} {
				kindsFull = append(kindsFull, c18P(cpu, prod, fl))
				if cpu > 0 && fl != c18FlagDyn {
					kindsSmall = append(kindsSmall, c18P(cpu, prod, fl))
				}
			}
		}
	}
	kindsFull = append(kindsFull, c18P(0, np, c18FlagNoMet), c18P(0, pr, c18FlagNoMet))
	var podSets [][]c18Pod
	if thorough {
		podSets = c18PodMultisets(kindsFull, 3)
	} else {
		podSets = c18PodMultisets(kindsFull, 2)
		for _, ps := range c18PodMultisets(kindsSmall, 3) {
			if len(ps) == 3 {
				podSets = append(podSets, ps)
			}
		}
	}
	richLevels := []c18Level{{c18LvlPct, 90, 0}, {c18LvlPct, 50, 0}, {c18LvlHigh, 0, 1}, {c18LvlHiP0, 0, 0}}
	recvLevels := []c18Level{{c18LvlPct, 10, 0}, {c18LvlPct, 30, 0}, {c18LvlHigh, 0, -1600}}
	if thorough {
		richLevels = append(richLevels, c18Level{c18LvlPct, 70, 0})
		recvLevels = append(recvLevels, c18Level{c18LvlLow, 0, 0}, c18Level{c18LvlHigh, 0, -400})
	}
	recvPods := [][]c18Pod{nil, {c18P(400, pr, c18FlagOK)}, {c18P(1600, pr, c18FlagOK)}}
	type third struct {
		lv     c18Level
		pods   []c18Pod
		metric int
	}
	thirds := []third{
		{c18Level{c18LvlPct, 10, 0}, []c18Pod{c18P(400, np, c18FlagOK)}, c18MetFresh},
		{c18Level{c18LvlPct, 50, 0}, []c18Pod{c18P(1600, np, c18FlagOK)}, c18MetFresh},
		{c18Level{c18LvlPct, 90, 0}, []c18Pod{c18P(1600, np, c18FlagOK), c18P(1600, np, c18FlagOK)}, c18MetFresh},
		{c18Level{c18LvlPct, 10, 0}, nil, c18MetMissing},
	}
	if thorough {
		thirds = append(thirds, third{c18Level{c18LvlPct, 30, 0}, []c18Pod{c18P(400, pr, c18FlagOK)}, c18MetFresh})
	}
	rx := mc.Radix{Dims: []int{len(podSets), len(richLevels), len(recvLevels), len(recvPods), len(thirds)}}
	alloc := c18AllocA
	p := &c18Part{name: name, cfgs: cfgs, size: rx.Size()}
	p.build = func(cfg *c18Cfg, i int64, rd *c18Round) {
		d := rx.Decode(i, make([]int, 0, 5))
		ps := podSets[d[0]]
		rich := c18MkNode(alloc, c18Vec{c18Target(cfg, alloc[0], richLevels[d[1]], ps), alloc[1] / 2}, ps)
		recv := c18MkNode(alloc, c18Vec{c18Target(cfg, alloc[0], recvLevels[d[2]], recvPods[d[3]]), alloc[1] / 2}, recvPods[d[3]])
		th := thirds[d[4]]
		tn := c18MkNode(alloc, c18Vec{c18Target(cfg, alloc[0], th.lv, th.pods), alloc[1] / 2}, th.pods)
		tn.Metric = th.metric
		rd.Nodes = []c18Node{rich, recv, tn}
	}
	p.rule = fmt.Sprintf("node 0: every multiset of pods (%d sets; kinds = usage {0,400m,1600m} x prod/non-prod x {passes, filter-rejected, limit-style filter} + missing metric) x usage level %v; node 1 (receiver): level %v x %d pod sets; node 2: %d variants (low, middle, overloaded, no metric); x thresholds {(30,60),(45,45)} x prod thresholds {off,(10,30)} x NodeFit {off,on} x Evict failure {none, first call, second call} x rejection mechanism %v (0 evictor filter, 1 excluded namespace)", len(podSets), richLevels, recvLevels, len(recvPods), len(thirds), rej)
	p.bounds = map[string]any{"nodes": 3, "pod_sets_on_rich_node": len(podSets), "max_pods_per_node": 3}
	return p
}

// deviation part: thresholds are offsets from the average usage of the measured nodes.
func c18DevPart(name string, nodes int, allocs []c18Vec) *c18Part {
	thr := [][2][2]int{{{10, -1}, {10, -1}}, {{10, -1}, {20, -1}}}
	prod := [][2][2]int{c18ProdNo, {{5, -1}, {10, -1}}}
	cfgs := c18CfgProduct(thr, prod, []int32{0, 1}, []bool{false, true}, []uint32{0}, []int{0}, true)
	np, pr := false, true
	templates := [][]c18Pod{
		{c18P(1600, np, c18FlagOK)},
		{c18P(1600, pr, c18FlagOK), c18P(400, np, c18FlagOK)},
		{c18P(1600, pr, c18FlagOK), c18P(1600, pr, c18FlagOK), c18P(400, np, c18FlagRej)},
	}
	var alpha []c18Node
	for _, alloc := range allocs {
		for _, pct := range []int{10, 30, 50, 70, 90} {
			for _, tp := range templates {
				alpha = append(alpha, c18MkNode(alloc, c18Vec{int64(pct) * alloc[0] / 100, alloc[1] / 2}, tp))
			}
		}
		x := c18MkNode(alloc, c18Vec{alloc[0] * 9 / 10, alloc[1] / 2}, templates[0])
		x.Metric = c18MetExpired
		alpha = append(alpha, x)
	}
	ms := c18Multisets(len(alpha), nodes)
	p := &c18Part{name: name, cfgs: cfgs, size: int64(len(ms) / nodes)}
	p.build = func(cfg *c18Cfg, i int64, rd *c18Round) {
		for j := 0; j < nodes; j++ {
			rd.Nodes = append(rd.Nodes, alpha[ms[int(i)*nodes+j]])
		}
	}
	p.rule = fmt.Sprintf("deviation thresholds (average of the measured nodes -low / +high, exact rational reference): every multiset of %d nodes over %d node configurations (cpu level {10,30,50,70,90}%% x 3 pod sets + an expired metric; allocatable %v) x deviation {(10,10),(10,20)} x prod deviation {off,(5,10)} x NumberOfNodes {0,1} x NodeFit {off,on}", nodes, len(alpha), allocs)
	p.bounds = map[string]any{"nodes": nodes, "node_alphabet": len(alpha)}
	return p
}

// memory part: cpu and memory both thresholded, usage levels independent per resource.
func c18MemPart(name string, nodes int) *c18Part {
	thr := [][2][2]int{{{30, 30}, {60, 60}}, {{45, 30}, {45, 60}}}
	prod := [][2][2]int{c18ProdNo, {{10, 10}, {30, 30}}}
	cfgs := c18CfgProduct(thr, prod, []int32{0}, []bool{false, true}, []uint32{0, 1}, []int{0, 1, 2}, false)
	alloc := c18AllocA
	gi := int64(1) << 30
	templates := [][]c18Pod{
		nil,
		{{CPU: 1600, Mem: 1 * gi}, {CPU: 400, Mem: 4 * gi}},
		{{CPU: 400, Mem: 3 * gi, Prod: true}, {CPU: 1600, Mem: 3 * gi, Prod: true}, {CPU: 400, Mem: 2 * gi, Flag: c18FlagRej}},
	}
	var alpha []c18Node
	for _, cp := range []int{10, 50, 90} {
		for _, mp := range []int{10, 50, 90} {
			for _, tp := range templates {
				alpha = append(alpha, c18MkNode(alloc, c18Vec{int64(cp) * alloc[0] / 100, int64(mp) * alloc[1] / 100}, tp))
			}
		}
	}
	x := c18MkNode(alloc, c18Vec{alloc[0] / 10, alloc[1] / 10}, nil)
	x.Metric = c18MetMissing
	alpha = append(alpha, x)
	ms := c18Multisets(len(alpha), nodes)
	p := &c18Part{name: name, cfgs: cfgs, size: int64(len(ms) / nodes)}
	p.build = func(cfg *c18Cfg, i int64, rd *c18Round) {
		for j := 0; j < nodes; j++ {
			rd.Nodes = append(rd.Nodes, alpha[ms[int(i)*nodes+j]])
		}
	}
	p.rule = fmt.Sprintf("cpu and memory both thresholded: every multiset of %d nodes over %d node configurations (cpu level {10,50,90}%% x memory level {10,50,90}%% x 3 pod sets with independent cpu/memory usage + a node without metric) x thresholds cpu/mem {(30,60)/(30,60),(45,45)/(30,60)} x prod {off,(10,30)/(10,30)} x NodeFit {off,on} x Evict failure {none, first call} x rejection mechanism {evictor filter, excluded namespace, pod selector}", nodes, len(alpha))
	p.bounds = map[string]any{"nodes": nodes, "node_alphabet": len(alpha)}
	return p
}

func TestVerifC18Round(t *testing.T) {
	env := mc.LoadEnv()
	if env.Replay != "" {
		var c c18Case
		part, _ := env.ReplayData(&c)
		if !strings.HasPrefix(part, "round-") && !strings.HasPrefix(part, "smoke-") {
			// a replay file of the history unit: nothing to do here (the driver wants a part from every unit)
			env.Emit(mc.NewResult("C18", "replay-not-for-this-unit", "enumeration"))
			return
		}
		res := mc.NewResult("C18", part, "enumeration")
		c18JudgeCase(res, part, &c.Cfg, &c.Round, res.Count, nil)
		fmt.Printf("REPLAY part=%s config {%s} snapshot %+v\n", part, c.Cfg.String(), c.Round.Nodes)
		for _, v := range res.Violations {
			fmt.Printf("REPLAY VIOLATION key=%s what=%s\n", v.Key, v.What)
		}
		if len(res.Violations) == 0 {
			fmt.Println("REPLAY OK (no clause violated)")
		}
		res.Evaluations, res.Traces = 1, 1
		env.Emit(res)
		return
	}
	only := c18OnlyFilter()
	if only == nil || only.MatchString("smoke-literal-vs-constructor") {
		c18Smoke(env, t)
	}
	thorough := env.Thorough()
	var parts []*c18Part
	parts = append(parts, c18MemPart("round-memory", env.Pick(3, 4)))
	if thorough {
		parts = append(parts, c18DevPart("round-deviation", 4, []c18Vec{c18AllocA, c18AllocB}))
		parts = append(parts, c18LoopPart("round-loop", true))
		parts = append(parts, c18GatePart("round-gate-mixed-capacity", 3, []c18Vec{c18AllocA, c18AllocB}, true))
		parts = append(parts, c18GatePart("round-gate", 4, []c18Vec{c18AllocA}, true))
	} else {
		parts = append(parts, c18DevPart("round-deviation", 3, []c18Vec{c18AllocA}))
		parts = append(parts, c18LoopPart("round-loop", false))
		parts = append(parts, c18GatePart("round-gate", 3, []c18Vec{c18AllocA}, false))
	}
	if only != nil {
		var sel []*c18Part
		for _, p := range parts {
			if only.MatchString(p.name) {
				sel = append(sel, p)
			}
		}
		parts = sel
		if len(parts) == 0 {
			env.Emit(mc.NewResult("C18", "no-part-of-round-selected", "enumeration"))
			return
		}
	}
	// every part gets the share of the REMAINING budget that corresponds to its share of the remaining cases, so a
	// slow machine caps every part a little instead of starving the last ones, and parts that finish early pass
	// their time on
	total := env.Budget
	weight := func(p *c18Part) float64 { return float64(p.size*int64(len(p.cfgs)) + 20000) }
	for pi, p := range parts {
		var rest float64
		for _, q := range parts[pi:] {
			rest += weight(q)
		}
		now := env.Elapsed()
		env.Budget = now + time.Duration(float64(total-now)*weight(p)/rest)
		if total <= now {
			env.Budget = now
		}
		c18RunPart(env, p)
	}
}
