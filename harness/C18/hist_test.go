package loadaware

// C18 history parts: BFS over sequences of Balance rounds on ONE plugin instance (the two anomaly-detector caches
// persist across rounds), every round a full cluster snapshot from a small alphabet. The last round of every
// history is judged by c18Judge, including the anomaly clause: with condition k an eviction needs the node to
// have been above its high threshold in >= k consecutive rounds ending now (reference: per-node counters kept by
// the harness from the inputs alone).

import (
	"fmt"
	"strings"
	"sync"
	"testing"
	"time"

	"github.com/koordinator-sh/koordinator/pkg/zzverif/mc"
)

type c18HistCfg struct {
	name    string
	cfg     c18Cfg
	failAll bool
	ops     []c18Round
	opNames []string
	depth   int

	// witness limiter: the engine re-executes every reported violation several times (serially); once a key has
	// c18MaxWitnesses distinct witness histories, further histories violating the same key are only counted.
	mu        sync.Mutex
	witnesses map[string]map[string]bool
}

const c18MaxWitnesses = 6

// report tells whether a violation of key by history hist is handed to the engine (always the same answer for
// the same history once admitted, so that the engine's confirmation runs reproduce it).
func (hc *c18HistCfg) report(key, hist string) bool {
	hc.mu.Lock()
	defer hc.mu.Unlock()
	if hc.witnesses == nil {
		hc.witnesses = map[string]map[string]bool{}
	}
	w := hc.witnesses[key]
	if w == nil {
		w = map[string]bool{}
		hc.witnesses[key] = w
	}
	if w[hist] {
		return true
	}
	if len(w) >= c18MaxWitnesses {
		return false
	}
	w[hist] = true
	return true
}

type c18HistSys struct {
	hc   *c18HistCfg
	pl   *LowNodeLoad
	h    *c18Handle
	l    *c18Lister
	anom *c18Anom // reference state of the anomaly clause
	res  *mc.Result
	hist []byte
}

func c18NewHistSys(hc *c18HistCfg, res *mc.Result) *c18HistSys {
	s := &c18HistSys{hc: hc, res: res}
	s.pl, s.h, s.l = c18NewPlugin(&hc.cfg)
	s.h.ev.failAll = hc.failAll
	s.anom = c18NewAnom(len(hc.ops[0].Nodes))
	return s
}

func (s *c18HistSys) Apply(op int, check bool) (bool, []mc.Violation) {
	rd := &s.hc.ops[op]
	cfg := &s.hc.cfg
	s.hist = append(s.hist, byte(op))
	ref := c18Compute(cfg, rd)
	s.anom.beginRound(cfg, ref)
	calls := c18RunRound(s.pl, s.h, s.l, cfg, rd)
	if !check {
		s.anom.endRound(cfg, rd, ref, calls)
		return true, nil
	}
	finds, st := c18Judge(cfg, rd, ref, calls, s.anom)
	st.countInto(s.res.Count)
	streaks := fmt.Sprintf("streak %v open %v", s.anom.streak, s.anom.open)
	defer func() {
		// the drains of this round resolve episodes only after the round has been judged
		if c := s.anom.endRound(cfg, rd, ref, calls); c > 0 && cfg.AnomalyK >= 2 {
			s.res.Count("episodes_resolved_by_drain_back_under", int64(c))
		}
	}()
	var viol []mc.Violation
	for _, f := range finds {
		key := c18Key("hist", f) // part-independent: the same defect class has one key in every configuration
		if strings.HasPrefix(f.Clause, "anomaly-not-consecutive") {
			// class of the witness: what the node looked like in the round that cut the streak, and how its last
			// abnormal episode (if any) had been resolved
			t := c18TierNode
			if strings.HasSuffix(f.Clause, "prod") {
				t = c18TierProd
			}
			for _, c := range calls {
				if !c.Unknown && s.anom.streak[t][c.Node] < int(cfg.AnomalyK) && !s.anom.open[t][c.Node] {
					if ep := s.anom.closedBy[t][c.Node]; ep != "" {
						key += "|episode-resolved-by:" + ep
					} else {
						gap := s.anom.lastNo[t][c.Node]
						if gap == "" {
							gap = "none(first-rounds)"
						}
						key += "|no-episode|streak-broken-by:" + gap
					}
					break
				}
			}
		}
		if !s.hc.report(key, string(s.hist)) {
			s.res.Count("violations_not_reported_beyond_witness_limit", 1)
			continue
		}
		viol = append(viol, mc.Violation{Key: key, What: fmt.Sprintf("%s; config {%s}; last snapshot %+v; recorded calls %+v; reference %s", f.What, cfg.String(), rd.Nodes, calls, streaks)})
	}
	return true, viol
}

func (s *c18HistSys) Invariants() []mc.Violation { return nil }

// Key: the only state the plugin carries from round to round are the two detector caches (args maps are rewritten
// idempotently by newThresholds). Of a detector only its state and the two Consecutive* counters are ever read by
// the condition functions LowNodeLoad installs (Total* counters and the generation are write-only; the expiration
// of the anomaly state is a day away). The counters are capped at k+n+2: the anomaly condition fires at > k in the
// ok state, the normal condition at > n in the anomaly state, so larger values are behaviourally equal. The
// reference state of the anomaly clause is part of the key (streaks capped at k, normal-round counters at n+1: the
// oracle only compares them with k and n).
func (s *c18HistSys) Key() string {
	cfg := &s.hc.cfg
	cp := cfg.AnomalyK + cfg.AnomalyN + 2
	k := "node{" + c18DetectorDump(s.pl.nodeAnomalyDetectors, cp) + "} prod{" + c18DetectorDump(s.pl.prodAnomalyDetectors, cp) + "} ref"
	if cfg.AnomalyK < 2 {
		return k // no anomaly clause: the reference state plays no role
	}
	for t := 0; t < 2; t++ {
		for i, v := range s.anom.streak[t] {
			if v > int(cfg.AnomalyK) {
				v = int(cfg.AnomalyK)
			}
			nm := s.anom.normals[t][i]
			if nm > int(cfg.AnomalyN)+1 || !s.anom.open[t][i] {
				nm = 0 // only compared with n while an episode is open
			}
			cls := ""
			if v < int(cfg.AnomalyK) && !s.anom.open[t][i] {
				// only used to name the witness class; kept in the key so that the class is stable
				if cls = s.anom.closedBy[t][i]; cls == "" {
					cls = s.anom.lastNo[t][i]
				}
			}
			k += fmt.Sprintf(" %d,%v,%d,%s", v, s.anom.open[t][i], nm, cls)
		}
		k += "|"
	}
	return k
}

// c18HistOps: every assignment of per-node symbols to the nodes (one symbol list per node).
func c18HistOps(cfg *c18Cfg, perNode [][]string) ([]c18Round, []string) {
	alloc := c18AllocA
	np, pr := false, true
	mk := func(sym string) c18Node {
		switch sym {
		case "L": // 10 %, prod share tiny
			return c18MkNode(alloc, c18Vec{alloc[0] / 10, alloc[1] / 2}, []c18Pod{c18P(400, np, c18FlagOK)})
		case "M": // 50 %, prod share 5 %
			return c18MkNode(alloc, c18Vec{alloc[0] / 2, alloc[1] / 2}, []c18Pod{c18P(1600, np, c18FlagOK), c18P(400, pr, c18FlagOK)})
		case "H": // 90 %, prod share 20 %
			return c18MkNode(alloc, c18Vec{alloc[0] * 9 / 10, alloc[1] / 2}, []c18Pod{c18P(1600, np, c18FlagOK), c18P(1600, np, c18FlagOK), c18P(1600, pr, c18FlagOK)})
		case "P": // 50 %, prod share 40 %: above the prod high threshold only
			return c18MkNode(alloc, c18Vec{alloc[0] / 2, alloc[1] / 2}, []c18Pod{c18P(1600, pr, c18FlagOK), c18P(1600, pr, c18FlagOK), c18P(400, np, c18FlagOK)})
		case "G": // 90 %, exactly two pods: the drain that brings the node back under takes its last pod
			return c18MkNode(alloc, c18Vec{alloc[0] * 9 / 10, alloc[1] / 2}, []c18Pod{c18P(1600, np, c18FlagOK), c18P(1600, np, c18FlagOK)})
		case "X": // no NodeMetric this round
			n := c18MkNode(alloc, c18Vec{alloc[0] * 9 / 10, alloc[1] / 2}, []c18Pod{c18P(1600, np, c18FlagOK)})
			n.Metric = c18MetMissing
			return n
		}
		panic(sym)
	}
	dims := make([]int, len(perNode))
	for i := range dims {
		dims[i] = len(perNode[i])
	}
	rx := mc.Radix{Dims: dims}
	var ops []c18Round
	var names []string
	for i := int64(0); i < rx.Size(); i++ {
		d := rx.Decode(i, nil)
		var rd c18Round
		name := ""
		for ni, s := range d {
			rd.Nodes = append(rd.Nodes, mk(perNode[ni][s]))
			name += perNode[ni][s]
		}
		ops = append(ops, rd)
		names = append(names, name)
	}
	return ops, names
}

func c18HistConfigs(env *mc.Env) []*c18HistCfg {
	base := c18Cfg{Low: [2]int{30, -1}, High: [2]int{60, -1}, ProdLow: [2]int{-1, -1}, ProdHigh: [2]int{-1, -1}}
	withProd := base
	withProd.ProdLow, withProd.ProdHigh = [2]int{10, -1}, [2]int{30, -1}
	type v struct {
		name     string
		cfg      c18Cfg
		k, n     uint32
		failAll  bool
		nodeFit  bool
		numNodes int32
		syms     []string
		second   []string // quick tier: symbols of the second node (nil: the full list)
		thorough bool
		dq, dt   int
	}
	plain := []string{"L", "M", "H", "X"}
	prod := []string{"L", "M", "H", "P"}
	last := []string{"L", "M", "G"}
	// NodeFit is off in every configuration with an anomaly condition: which pods are "removable" would otherwise
	// depend on the fit check, and the witness class "the drain took the node's last candidate pod" is defined on the
	// pods that pass the filters. (NodeFit itself is covered by the single-round parts and by hist-k1.)
	// Order: the configurations whose interesting histories need the full quick depth come first.
	vs := []v{
		{"hist-nocond", base, 0, 0, false, false, 0, plain, nil, false, 2, 2},
		{"hist-k1", base, 1, 1, false, true, 0, plain, nil, false, 2, 3},
		{"hist-k2n3", base, 2, 3, false, false, 0, plain, []string{"L", "H"}, false, 5, 8},
		{"hist-k2n3-lastpod", base, 2, 3, false, false, 0, last, []string{"L", "G"}, false, 5, 8},
		{"hist-k2n1", base, 2, 1, false, false, 0, plain, nil, false, 5, 8},
		{"hist-k2n1-evictfail", base, 2, 1, true, false, 0, plain, nil, false, 5, 8},
		{"hist-k2n1-prod", withProd, 2, 1, false, false, 0, prod, nil, false, 4, 8},
		{"hist-k3n3", base, 3, 3, false, false, 0, plain, nil, false, 5, 8},
		{"hist-k2n3-numnodes1", base, 2, 3, false, false, 1, plain, nil, true, 5, 8},
		{"hist-k3n1-prod-evictfail", withProd, 3, 1, true, false, 0, prod, nil, true, 5, 8},
	}
	var out []*c18HistCfg
	for _, x := range vs {
		if x.thorough && !env.Thorough() {
			continue
		}
		mk := func(name string, depth int, perNode [][]string) {
			hc := &c18HistCfg{name: name, cfg: x.cfg, failAll: x.failAll, depth: depth}
			hc.cfg.AnomalyK, hc.cfg.AnomalyN, hc.cfg.NodeFit, hc.cfg.NumNodes = x.k, x.n, x.nodeFit, x.numNodes
			hc.ops, hc.opNames = c18HistOps(&hc.cfg, perNode)
			out = append(out, hc)
		}
		// the third node only alternates between underused and between-thresholds
		second := x.syms
		if x.second != nil && !env.Thorough() {
			second = x.second
		}
		mk(x.name, env.Pick(x.dq, x.dt), [][]string{x.syms, second, {"L", "M"}})
		if env.Thorough() && x.k >= 2 {
			// all three nodes over the full per-node alphabet, shallower
			mk(x.name+"-full3", 4, [][]string{x.syms, x.syms, x.syms})
		}
	}
	return out
}

func TestVerifC18Hist(t *testing.T) {
	env := mc.LoadEnv()
	total := env.Budget
	cfgs := c18HistConfigs(env)
	if re := c18OnlyFilter(); re != nil {
		var sel []*c18HistCfg
		for _, hc := range cfgs {
			if re.MatchString(hc.name) {
				sel = append(sel, hc)
			}
		}
		cfgs = sel
		if len(cfgs) == 0 {
			env.Emit(mc.NewResult("C18", "no-part-of-hist-selected", "bfs"))
			return
		}
	}
	for ci, hc := range cfgs {
		hc := hc
		// every configuration gets an equal share of the remaining budget (a slow machine caps every part a little
		// instead of starving the last ones)
		now := env.Elapsed()
		env.Budget = now
		if total > now {
			env.Budget = now + (total-now)/time.Duration(len(cfgs)-ci)
		}
		res := mc.NewResult("C18", hc.name, "bfs")
		res.Rule = fmt.Sprintf("BFS over all sequences of Balance rounds on one plugin instance; a round is a full 3-node snapshot, alphabet = %d snapshots (per node: L 10%%, M 50%%, H 90%% with three pods, G 90%% with two pods, P 50%% with prod share 40%%, X no NodeMetric); config {%s}, every Evict fails: %v; states deduplicated by detector states/counters + reference streak counters; the last round of each history is judged call by call", len(hc.ops), hc.cfg.String(), hc.failAll)
		res.Assumptions = append(append([]string{}, c18Assumptions...),
			"successive rounds follow each other within the detector cache TTL and the anomaly-state timeout (both configured to 24 h): no detector expires between rounds",
			"the snapshot of a round is independent of the evictions of earlier rounds (evicted pods may be re-created under the same name)")
		b := &mc.BFS{Res: res, Env: env, New: func() mc.System { return c18NewHistSys(hc, res) }, NumOps: len(hc.ops),
			OpName: func(i int) string { return hc.opNames[i] }, MaxDepth: hc.depth, Repeats: 0}
		b.Run()
		if res.Bounds == nil {
			res.Bounds = map[string]any{}
		}
		res.Bounds["nodes"] = 3
		res.Bounds["rounds"] = res.MaxDepth
		c18Vacuity(res, hc.name)
		env.Emit(res)
	}
}
