package loadaware

// C18 smoke case: the same snapshot is balanced (a) by the struct-literal plugin used in all enumerations and (b)
// by a plugin built through the real constructor NewLowNodeLoad inside frameworktesting.NewFramework with real
// informers, the default evictor and the fake clientsets, exactly as the package's own TestLowNodeLoad does. Both
// must evict the same pods; the evictions of (b) are judged by the same oracle.

import (
	"context"
	"fmt"
	"sort"
	"sync"
	"testing"
	"time"

	corev1 "k8s.io/api/core/v1"
	policyv1 "k8s.io/api/policy/v1"
	metav1 "k8s.io/apimachinery/pkg/apis/meta/v1"
	"k8s.io/apimachinery/pkg/runtime"
	"k8s.io/client-go/informers"
	"k8s.io/client-go/kubernetes/fake"
	coretesting "k8s.io/client-go/testing"
	"k8s.io/client-go/tools/events"

	koordfake "github.com/koordinator-sh/koordinator/pkg/client/clientset/versioned/fake"
	deschedulerconfig "github.com/koordinator-sh/koordinator/pkg/descheduler/apis/config"
	"github.com/koordinator-sh/koordinator/pkg/descheduler/evictions"
	"github.com/koordinator-sh/koordinator/pkg/descheduler/framework"
	"github.com/koordinator-sh/koordinator/pkg/descheduler/framework/plugins/kubernetes/defaultevictor"
	frameworkruntime "github.com/koordinator-sh/koordinator/pkg/descheduler/framework/runtime"
	frameworktesting "github.com/koordinator-sh/koordinator/pkg/descheduler/framework/testing"
	"github.com/koordinator-sh/koordinator/pkg/descheduler/test"
	"github.com/koordinator-sh/koordinator/pkg/zzverif/mc"
)

func c18SmokeCase() c18Case {
	alloc := c18AllocA
	np, pr := false, true
	cfg := c18Cfg{Low: [2]int{30, -1}, High: [2]int{60, -1}, ProdLow: [2]int{-1, -1}, ProdHigh: [2]int{-1, -1}, NodeFit: true}
	rd := c18Round{Nodes: []c18Node{
		c18MkNode(alloc, c18Vec{alloc[0] * 9 / 10, alloc[1] / 2}, []c18Pod{c18P(1600, np, c18FlagOK), c18P(400, np, c18FlagOK), c18P(1600, pr, c18FlagOK)}),
		c18MkNode(alloc, c18Vec{alloc[0] / 10, alloc[1] / 2}, []c18Pod{c18P(400, np, c18FlagOK)}),
		c18MkNode(alloc, c18Vec{alloc[0] / 2, alloc[1] / 2}, []c18Pod{c18P(1600, np, c18FlagOK)}),
	}}
	return c18Case{cfg, rd}
}

func c18Smoke(env *mc.Env, t *testing.T) {
	res := mc.NewResult("C18", "smoke-literal-vs-constructor", "enumeration")
	res.Rule = "one snapshot (overloaded node with three pods, an underused node, a node between the thresholds) balanced by the struct-literal plugin and by NewLowNodeLoad inside the real framework with informers and the default evictor; both eviction sets must agree and are judged by the oracle"
	c := c18SmokeCase()
	// (a) literal
	pl, h, l := c18NewPlugin(&c.Cfg)
	nodes := c18Load(&c.Cfg, &c.Round, h, l, test.SetRSOwnerRef)
	pl.Balance(context.Background(), nodes)
	var lit []string
	for _, cl := range h.ev.calls {
		lit = append(lit, fmt.Sprintf("n%d-p%d", cl.Node, cl.Pod))
	}
	sort.Strings(lit)
	litCalls := append([]c18Call(nil), h.ev.calls...)

	// (b) real constructor, fresh objects
	_, h2, l2 := c18NewPlugin(&c.Cfg)
	nodes2 := c18Load(&c.Cfg, &c.Round, h2, l2, test.SetRSOwnerRef)
	ctx, cancel := context.WithCancel(context.Background())
	defer cancel()
	var objs []runtime.Object
	for _, n := range nodes2 {
		objs = append(objs, n)
	}
	for _, name := range mc.SortedKeys(h2.pods) {
		for _, p := range h2.pods[name] {
			objs = append(objs, p)
		}
	}
	fakeClient := fake.NewSimpleClientset(objs...)
	setupFakeDiscoveryWithPolicyResource(&fakeClient.Fake)
	var mu sync.Mutex
	var real []string
	fakeClient.PrependReactor("create", "pods", func(action coretesting.Action) (bool, runtime.Object, error) {
		if action.GetSubresource() != "eviction" {
			return false, nil, nil
		}
		if ca, ok := action.(coretesting.CreateAction); ok {
			if ev, ok := ca.GetObject().(*policyv1.Eviction); ok {
				mu.Lock()
				real = append(real, ev.Name)
				mu.Unlock()
			}
		}
		return false, nil, nil
	})
	sharedInformerFactory := informers.NewSharedInformerFactory(fakeClient, 0)
	_ = sharedInformerFactory.Core().V1().Nodes().Informer()
	podInformer := sharedInformerFactory.Core().V1().Pods()
	getPodsAssignedToNode, err := test.BuildGetPodsAssignedToNodeFunc(podInformer)
	if err != nil {
		t.Fatalf("c18 smoke: %v", err)
	}
	sharedInformerFactory.Start(ctx.Done())
	sharedInformerFactory.WaitForCacheSync(ctx.Done())
	koordClientSet := koordfake.NewSimpleClientset()
	for _, name := range mc.SortedKeys(l2.m) {
		if _, err := koordClientSet.SloV1alpha1().NodeMetrics().Create(ctx, l2.m[name], metav1.CreateOptions{}); err != nil {
			t.Fatalf("c18 smoke: %v", err)
		}
	}
	args := c18Args(&c.Cfg)
	args.DetectorCacheTimeout = &metav1.Duration{Duration: 5 * time.Minute}
	evictionLimiter := evictions.NewEvictionLimiter(nil, nil, nil)
	fh, err := frameworktesting.NewFramework(
		[]frameworktesting.RegisterPluginFunc{
			func(reg *frameworkruntime.Registry, profile *deschedulerconfig.DeschedulerProfile) {
				reg.Register(defaultevictor.PluginName, defaultevictor.New)
				profile.Plugins.Evict.Enabled = append(profile.Plugins.Evict.Enabled, deschedulerconfig.Plugin{Name: defaultevictor.PluginName})
				profile.Plugins.Filter.Enabled = append(profile.Plugins.Filter.Enabled, deschedulerconfig.Plugin{Name: defaultevictor.PluginName})
				profile.PluginConfig = append(profile.PluginConfig, deschedulerconfig.PluginConfig{Name: defaultevictor.PluginName, Args: &defaultevictor.DefaultEvictorArgs{}})
			},
			func(reg *frameworkruntime.Registry, profile *deschedulerconfig.DeschedulerProfile) {
				reg.Register(LowNodeLoadName, func(ctx context.Context, a runtime.Object, handle framework.Handle) (framework.Plugin, error) {
					return NewLowNodeLoad(ctx, a, &fakeFrameworkHandle{Handle: handle, Interface: koordClientSet})
				})
				profile.Plugins.Balance.Enabled = append(profile.Plugins.Balance.Enabled, deschedulerconfig.Plugin{Name: LowNodeLoadName})
				profile.PluginConfig = append(profile.PluginConfig, deschedulerconfig.PluginConfig{Name: LowNodeLoadName, Args: args})
			},
		},
		"test",
		frameworkruntime.WithClientSet(fakeClient),
		frameworkruntime.WithEvictionLimiter(evictionLimiter),
		frameworkruntime.WithEventRecorder(&events.FakeRecorder{}),
		frameworkruntime.WithSharedInformerFactory(sharedInformerFactory),
		frameworkruntime.WithGetPodsAssignedToNodeFunc(getPodsAssignedToNode),
	)
	if err != nil {
		t.Fatalf("c18 smoke: NewFramework: %v", err)
	}
	fh.RunBalancePlugins(ctx, nodes2)
	mu.Lock()
	sort.Strings(real)
	realCopy := append([]string(nil), real...)
	mu.Unlock()

	res.Evaluations, res.Traces = 2, 2
	res.Count("evictions_literal", int64(len(lit)))
	res.Count("evictions_real_constructor", int64(len(realCopy)))
	res.Count("evictions_counted_by_eviction_limiter", int64(evictionLimiter.TotalEvicted()))
	if fmt.Sprint(lit) != fmt.Sprint(realCopy) || len(lit) == 0 {
		res.Violate(mc.Violation{Key: "C18|smoke|literal-differs-from-constructor", What: fmt.Sprintf("harness validity: struct-literal plugin evicted %v, plugin built by NewLowNodeLoad inside the framework evicted %v (expected equal and non-empty)", lit, realCopy), Replay: c})
	}
	// judge both runs
	ref := c18Compute(&c.Cfg, &c.Round)
	var realCalls []c18Call
	for _, name := range realCopy {
		var ni, pi int
		fmt.Sscanf(name, "n%d-p%d", &ni, &pi)
		realCalls = append(realCalls, c18Call{Node: ni, Pod: pi, OK: true, FilterPass: true})
	}
	for _, calls := range [][]c18Call{litCalls, realCalls} {
		finds, st := c18Judge(&c.Cfg, &c.Round, ref, calls, nil)
		st.countInto(res.Count)
		for _, f := range finds {
			res.Violate(mc.Violation{Key: c18Key("smoke", f), What: f.What, Replay: c})
		}
	}
	res.Distinct = 1
	res.Exhaustive = true
	res.Sample(fmt.Sprintf("literal evicted %v; real constructor evicted %v", lit, realCopy))
	_ = corev1.ResourceCPU
	env.Emit(res)
}
