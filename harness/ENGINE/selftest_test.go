package vsync

// Engine self-test: the controlled scheduler must find a lost update, an ABBA deadlock and the RWMutex
// recursive-read deadlock, must not find them below the needed preemption bound, and must replay
// deterministically. Run by `check ENGINE` (part of setup smoke).

import (
	"fmt"
	"os"
	"reflect"
	"testing"
)

type counter struct {
	mu Mutex
	v  int
}

func (c *counter) racyInc() {
	c.mu.Lock()
	v := c.v
	c.mu.Unlock()
	c.mu.Lock()
	c.v = v + 1
	c.mu.Unlock()
}

func (c *counter) inc() {
	c.mu.Lock()
	c.v++
	c.mu.Unlock()
}

func TestVerifEngine(t *testing.T) {
	fail := func(f string, a ...any) {
		fmt.Printf("ENGINE SELFTEST FAILED: "+f+"\n", a...)
		os.Exit(3)
	}
	// 1. lost update needs exactly one preemption
	for bound := 0; bound <= 2; bound++ {
		outcomes := map[int]int{}
		var c *counter
		e := &Explorer{Bound: bound, Build: func() ([]func(), func(), func(*Outcome)) {
			c = &counter{}
			return []func(){c.racyInc, c.racyInc}, nil, func(o *Outcome) {
				if o.Deadlock || o.Panic != "" || o.Livelock {
					fail("unexpected outcome %+v", o)
				}
				outcomes[c.v]++
			}
		}}
		if !e.Run() {
			fail("explorer capped")
		}
		if bound == 0 && (outcomes[1] != 0 || outcomes[2] == 0) {
			fail("bound 0 must see only final=2, got %v", outcomes)
		}
		if bound >= 1 && outcomes[1] == 0 {
			fail("bound %d must find the lost update, got %v", bound, outcomes)
		}
		fmt.Printf("lost-update bound=%d execs=%d outcomes=%v\n", bound, e.Execs, outcomes)
	}
	// 2. atomic increments never lose an update, unbounded, 3 threads
	{
		var c *counter
		bad := 0
		e := &Explorer{Bound: -1, Build: func() ([]func(), func(), func(*Outcome)) {
			c = &counter{}
			return []func(){c.inc, c.inc, c.inc}, nil, func(o *Outcome) {
				if c.v != 3 || o.Deadlock {
					bad++
				}
			}
		}}
		if !e.Run() || bad != 0 {
			fail("atomic counter: bad=%d", bad)
		}
		fmt.Printf("atomic 3 threads unbounded execs=%d\n", e.Execs)
	}
	// 3. ABBA deadlock
	{
		dead := 0
		e := &Explorer{Bound: 1, Build: func() ([]func(), func(), func(*Outcome)) {
			var a, b Mutex
			return []func(){
				func() { a.Lock(); b.Lock(); b.Unlock(); a.Unlock() },
				func() { b.Lock(); a.Lock(); a.Unlock(); b.Unlock() },
			}, nil, func(o *Outcome) {
				if o.Deadlock {
					dead++
				}
			}
		}}
		e.Run()
		if dead == 0 {
			fail("ABBA deadlock not found")
		}
		fmt.Printf("abba execs=%d deadlocks=%d\n", e.Execs, dead)
	}
	// 4. recursive RLock with a writer arriving in between (writer preference)
	{
		dead := 0
		e := &Explorer{Bound: 2, Build: func() ([]func(), func(), func(*Outcome)) {
			var m RWMutex
			return []func(){
				func() { m.RLock(); m.RLock(); m.RUnlock(); m.RUnlock() },
				func() { m.Lock(); m.Unlock() },
			}, nil, func(o *Outcome) {
				if o.Deadlock {
					dead++
				}
			}
		}}
		e.Run()
		if dead == 0 {
			fail("recursive read-lock deadlock not found")
		}
		fmt.Printf("rw-recursive execs=%d deadlocks=%d\n", e.Execs, dead)
	}
	// 5. deterministic replay: a recorded schedule replays to the same trace, twice
	{
		var c *counter
		var rec *Outcome
		e := &Explorer{Bound: 2, Build: func() ([]func(), func(), func(*Outcome)) {
			c = &counter{}
			return []func(){c.racyInc, c.racyInc}, nil, func(o *Outcome) {
				if c.v == 1 && rec == nil {
					rec = o
				}
			}
		}}
		e.Run()
		if rec == nil {
			fail("no lost-update schedule recorded")
		}
		o1 := e.Replay(rec.Choices)
		v1 := c.v
		o2 := e.Replay(rec.Choices)
		v2 := c.v
		if v1 != 1 || v2 != 1 || !reflect.DeepEqual(o1.Trace, o2.Trace) || !reflect.DeepEqual(o1.Choices, rec.Choices) {
			fail("replay not deterministic: %v %v %v %v", v1, v2, o1.Trace, o2.Trace)
		}
		fmt.Printf("replay ok choices=%v trace=%v\n", rec.Choices, o1.Trace)
		// an infeasible schedule must fail loudly
		func() {
			defer func() {
				if recover() == nil {
					fail("diverging schedule did not fail loudly")
				}
			}()
			e.Replay([]int{7})
		}()
	}
	// 6. panic in a thread while holding a lock is reported, the other thread is killed cleanly
	{
		panics := 0
		e := &Explorer{Bound: 1, Build: func() ([]func(), func(), func(*Outcome)) {
			var m Mutex
			return []func(){
				func() { m.Lock(); defer m.Unlock(); panic("boom") },
				func() { m.Lock(); m.Unlock() },
			}, nil, func(o *Outcome) {
				if o.Panic != "" {
					panics++
				}
			}
		}}
		e.Run()
		if panics == 0 {
			fail("panic not reported")
		}
		fmt.Printf("panic execs=%d panics=%d\n", e.Execs, panics)
	}
	if out := os.Getenv("VERIF_OUT"); out != "" {
		os.WriteFile(out, []byte(`[{"property":"ENGINE","part":"selftest","kind":"schedules","states":1,"transitions":1,"traces":1,"evaluations":6,"distinct_nontrivial":6,"exhaustive":true,"rule":"engine self-test","samples":["lost-update","abba","rw-recursive","replay","panic"],"violations":[]}]`), 0o644)
	}
}
