package resourceexecutor

// C12 — hierarchical cgroup rewrites never pass through an invalid hierarchy.
//
// Fault enumeration over crash prefixes, executed on the REAL ResourceUpdateExecutorImpl.LeveledUpdateBatch with
// REAL updaters from DefaultCgroupUpdaterFactory on a temp cgroup tree (system.NewFileTestUtil configuration):
//
//	trees x cgroup version x resource x every (old,new) value assignment that is hierarchy-valid at both ends
//	x cache state {cold, warm, force}
//
// Every updater is wrapped by c12Snap, which delegates MergeUpdate()/update() to the real updater and afterwards
// reads the inotify queue of the tree files: an IN_CLOSE_WRITE event is one file write = one crash point. After
// every write all files of the tree are read back and judged. Oracle clauses are written from the property
// statement only (subset / <= along every parent-child edge after each write; target reached at the end;
// unchanged files receive no write; an identical second batch performs no write). The reference is boring:
// bit masks and int64 with "unlimited" = MaxInt64, own parsers, no call into the code under check.
//
// Kernel fidelity of the fixture (declared as assumptions in the evidence):
//   - start contents are what the kernel prints ("max 100000\n", "0-2\n", "max\n");
//   - after each observed write the harness replaces the raw string by the kernel's read-back of the same value
//     (cpu.max "200000" -> "200000 100000\n", memory "9223372036854775807" -> "max\n"); this never changes the
//     semantic value and is needed because the code parses cpu.max with exactly two fields;
//   - a written string that the kernel's parser rejects (literal "-1" into the v2 file cpu.max -> EINVAL) is
//     detected, and the case is re-executed with exactly that call's file made immutable (the write fails like
//     on a real kernel); the case is then judged on the re-execution, key suffix "|kernel-reject-emulated".

import (
	"encoding/json"
	"fmt"
	"math"
	"os"
	"path/filepath"
	"strconv"
	"strings"
	"sync/atomic"
	"syscall"
	"testing"
	"time"
	"unsafe"

	"github.com/koordinator-sh/koordinator/pkg/koordlet/audit"
	sysutil "github.com/koordinator-sh/koordinator/pkg/koordlet/util/system"
	"github.com/koordinator-sh/koordinator/pkg/util/cache"
	"github.com/koordinator-sh/koordinator/pkg/zzverif/mc"
)

const (
	c12Inf        = int64(math.MaxInt64)
	c12Period     = "100000" // kernel default cfs period printed as second field of cpu.max
	c12MemMaxByte = int64(9223372036854771712)
)

// ---------------------------------------------------------------------------------------------------------------
// resources: semantic values, what the caller passes, what the kernel prints, what the kernel's parser accepts
// ---------------------------------------------------------------------------------------------------------------

type c12Kind struct {
	Name  string
	RT    sysutil.ResourceType
	IsSet bool    // cpuset (bit mask, subset order) vs scalar limit/protection (<= order)
	Vals  []int64 // scalar alphabet, ascending, unlimited last
	NTok  int     // number of spellings the caller may use for "unlimited"
}

func c12AllKinds() []c12Kind {
	gi := int64(1) << 30
	return []c12Kind{
		{Name: "cfs_quota", RT: sysutil.CPUCFSQuotaName, Vals: []int64{10000, 100000, 200000, c12Inf}, NTok: 1}, // "10000" is a decimal prefix of "100000": an equality test on text prefixes takes that shrink for unchanged (seed C12-6)
		{Name: "memory.min", RT: sysutil.MemoryMinName, Vals: []int64{0, gi, 2 * gi, c12Inf}, NTok: 2},
		{Name: "memory.low", RT: sysutil.MemoryLowName, Vals: []int64{0, gi, 2 * gi, c12Inf}, NTok: 2},
		{Name: "memory.high", RT: sysutil.MemoryHighName, Vals: []int64{0, gi, 2 * gi, c12Inf}, NTok: 2},
		{Name: "cpuset", RT: sysutil.CPUSetCPUSName, IsSet: true, NTok: 1},
	}
}

func (k *c12Kind) isMem() bool { return strings.HasPrefix(k.Name, "memory.") }

// c12MaskList renders a CPU mask as the kernel's canonical range list ("0-2,4").
func c12MaskList(m int64) string {
	var parts []string
	for i := 0; i < 62; i++ {
		if m&(1<<uint(i)) == 0 {
			continue
		}
		j := i
		for j+1 < 62 && m&(1<<uint(j+1)) != 0 {
			j++
		}
		if j == i {
			parts = append(parts, strconv.Itoa(i))
		} else {
			parts = append(parts, strconv.Itoa(i)+"-"+strconv.Itoa(j))
		}
		i = j
	}
	return strings.Join(parts, ",")
}

func c12ParseList(s string) (int64, bool) {
	s = strings.TrimSpace(s)
	if s == "" {
		return 0, true
	}
	var m int64
	for _, p := range strings.Split(s, ",") {
		lohi := strings.SplitN(p, "-", 2)
		lo, err := strconv.Atoi(strings.TrimSpace(lohi[0]))
		if err != nil || lo < 0 || lo >= 62 {
			return 0, false
		}
		hi := lo
		if len(lohi) == 2 {
			hi, err = strconv.Atoi(strings.TrimSpace(lohi[1]))
			if err != nil || hi < lo || hi >= 62 {
				return 0, false
			}
		}
		for i := lo; i <= hi; i++ {
			m |= 1 << uint(i)
		}
	}
	return m, true
}

// callerToken is the value string a koordlet plugin hands to the updater factory (protocol.injectCPUQuota formats
// int64 -1 for "unlimited"; cgroup_reconcile formats MaxInt64 for memory; "max" is accepted by the validators).
func (k *c12Kind) callerToken(v int64, tok int) string {
	switch {
	case k.IsSet:
		return c12MaskList(v)
	case v != c12Inf:
		return strconv.FormatInt(v, 10)
	case k.Name == "cfs_quota":
		return "-1"
	case tok == 0:
		return "9223372036854775807"
	default:
		return "max"
	}
}

// kernelContent is what the kernel prints when the file holding semantic value v is read.
func (k *c12Kind) kernelContent(v int64, v2 bool) string {
	switch {
	case k.IsSet:
		return c12MaskList(v) + "\n"
	case k.Name == "cfs_quota" && v2:
		if v == c12Inf {
			return "max " + c12Period + "\n"
		}
		return strconv.FormatInt(v, 10) + " " + c12Period + "\n"
	case k.Name == "cfs_quota":
		if v == c12Inf {
			return "-1\n"
		}
		return strconv.FormatInt(v, 10) + "\n"
	default:
		if v == c12Inf {
			return "max\n"
		}
		return strconv.FormatInt(v, 10) + "\n"
	}
}

// parse gives the semantic value of a raw file content (lenient: also accepts what only the fixture accepts;
// kernelRejects tells the two apart).
func (k *c12Kind) parse(raw string, v2 bool) (int64, bool) {
	s := strings.TrimSpace(raw)
	if k.IsSet {
		return c12ParseList(s)
	}
	if k.Name == "cfs_quota" {
		f := strings.Fields(s)
		if len(f) < 1 || len(f) > 2 {
			return 0, false
		}
		s = f[0]
		if s == "-1" || s == "max" {
			return c12Inf, true
		}
	} else if s == "max" {
		return c12Inf, true
	}
	n, err := strconv.ParseInt(s, 10, 64)
	if err != nil || n < 0 {
		return 0, false
	}
	if k.isMem() && n >= c12MemMaxByte {
		return c12Inf, true
	}
	return n, true
}

// kernelRejects: strings the kernel's write handler refuses syntactically (cpu_period_quota_parse: "max" or %llu;
// cpu.cfs_quota_us: signed decimal; memory.*: "max" or memparse).
func (k *c12Kind) kernelRejects(raw string, v2 bool) bool {
	s := strings.TrimSpace(raw)
	switch {
	case k.IsSet:
		_, ok := c12ParseList(s)
		return !ok
	case k.Name == "cfs_quota" && v2:
		f := strings.Fields(s)
		if len(f) < 1 || len(f) > 2 {
			return true
		}
		if f[0] == "max" {
			return false
		}
		_, err := strconv.ParseUint(f[0], 10, 64)
		return err != nil
	case k.Name == "cfs_quota":
		_, err := strconv.ParseInt(s, 10, 64)
		return err != nil
	default:
		if s == "max" {
			return false
		}
		_, err := strconv.ParseUint(s, 10, 64)
		return err != nil
	}
}

func (k *c12Kind) show(v int64) string {
	if k.IsSet {
		return "{" + c12MaskList(v) + "}"
	}
	if v == c12Inf {
		return "unlimited"
	}
	return strconv.FormatInt(v, 10)
}

// le is the order of the property: child "no larger than" parent (subset for CPU sets).
func (k *c12Kind) le(child, parent int64) bool {
	if k.IsSet {
		return child&^parent == 0
	}
	return child <= parent
}

func (k *c12Kind) dir(old, new int64) string {
	switch {
	case old == new:
		return "same"
	case k.IsSet && old&^new == 0:
		return "grow"
	case k.IsSet && new&^old == 0:
		return "shrink"
	case k.IsSet:
		return "shift"
	case new == c12Inf:
		return "grow-to-unlimited"
	case old == c12Inf:
		return "shrink-from-unlimited"
	case new > old:
		return "grow"
	default:
		return "shrink"
	}
}

// ---------------------------------------------------------------------------------------------------------------
// trees
// ---------------------------------------------------------------------------------------------------------------

var c12Slots = []string{"r", "r/a", "r/a/g", "r/b", "r/b/h"}

type c12Tree struct {
	Name   string
	Parent []int // parents precede children
	Slot   []int
	Level  []int
}

func c12MkTree(name string, parent, slot []int) c12Tree {
	t := c12Tree{Name: name, Parent: parent, Slot: slot, Level: make([]int, len(parent))}
	for i, p := range parent {
		if p >= 0 {
			t.Level[i] = t.Level[p] + 1
		}
	}
	return t
}

var c12Trees = map[string]c12Tree{
	"chain1": c12MkTree("chain1", []int{-1}, []int{0}),
	"chain2": c12MkTree("chain2", []int{-1, 0}, []int{0, 1}),
	"chain3": c12MkTree("chain3", []int{-1, 0, 1}, []int{0, 1, 2}),
	"fan2":   c12MkTree("fan2", []int{-1, 0, 0}, []int{0, 1, 3}),
	"fan2g":  c12MkTree("fan2g", []int{-1, 0, 0, 1}, []int{0, 1, 3, 2}),
	"fan2gg": c12MkTree("fan2gg", []int{-1, 0, 0, 1, 2}, []int{0, 1, 3, 2, 4}),
}

func (t *c12Tree) isLeaf(i int) bool {
	for _, p := range t.Parent {
		if p == i {
			return false
		}
	}
	return true
}

// c12Valid enumerates every assignment over dom that is hierarchy-valid (each child le its parent).
func c12Valid(t *c12Tree, k *c12Kind, dom []int64) [][]int64 {
	var out [][]int64
	cur := make([]int64, len(t.Parent))
	var rec func(i int)
	rec = func(i int) {
		if i == len(cur) {
			out = append(out, append([]int64(nil), cur...))
			return
		}
		for _, v := range dom {
			if p := t.Parent[i]; p >= 0 && !k.le(v, cur[p]) {
				continue
			}
			cur[i] = v
			rec(i + 1)
		}
	}
	rec(0)
	return out
}

// c12HierarchyBroken judges one state by the statement: child CPU set contained in the parent's, non-empty where
// the kernel requires it (a leaf holds the tasks); child limit/protection no larger than the parent's.
func c12HierarchyBroken(t *c12Tree, k *c12Kind, s []int64) (clause string, p, c int) {
	for i, par := range t.Parent {
		if k.IsSet && s[i] == 0 && t.isLeaf(i) {
			return "empty-cpuset-after-write", par, i
		}
		if par >= 0 && !k.le(s[i], s[par]) {
			if k.IsSet {
				return "child-not-subset-after-write", par, i
			}
			return "child-above-parent-after-write", par, i
		}
	}
	return "", -1, -1
}

// ---------------------------------------------------------------------------------------------------------------
// per-worker rig: own directory prefix, own inotify instance
// ---------------------------------------------------------------------------------------------------------------

type c12Rig struct {
	prefix string
	ifd    int
	buf    []byte
	path   [2][][]string // [ver][kind][slot]
	wd     [2][][]int32
	immOK  bool
}

func c12NewRig(worker int, kinds []c12Kind, setV2 func(bool)) *c12Rig {
	r := &c12Rig{prefix: fmt.Sprintf("c12w%02d", worker), buf: make([]byte, 16384)}
	fd, err := syscall.InotifyInit1(syscall.IN_NONBLOCK | syscall.IN_CLOEXEC)
	if err != nil {
		panic(fmt.Sprintf("c12 harness: inotify unavailable (%v): writes cannot be counted", err))
	}
	r.ifd = fd
	for ver := 0; ver < 2; ver++ {
		setV2(ver == 1)
		r.path[ver] = make([][]string, len(kinds))
		r.wd[ver] = make([][]int32, len(kinds))
		for ki, k := range kinds {
			res, err := sysutil.GetCgroupResource(k.RT)
			if err != nil {
				panic(err)
			}
			for _, slot := range c12Slots {
				p := res.Path(filepath.Join(r.prefix, slot))
				if err := os.MkdirAll(filepath.Dir(p), 0o777); err != nil {
					panic(err)
				}
				if err := os.WriteFile(p, nil, 0o644); err != nil {
					panic(err)
				}
				wd, err := syscall.InotifyAddWatch(fd, p, syscall.IN_CLOSE_WRITE|syscall.IN_DELETE_SELF|syscall.IN_MOVE_SELF)
				if err != nil {
					panic(fmt.Sprintf("c12 harness: inotify watch on %s: %v", p, err))
				}
				r.path[ver][ki] = append(r.path[ver][ki], p)
				r.wd[ver][ki] = append(r.wd[ver][ki], int32(wd))
			}
		}
	}
	r.drain()
	// probe the immutable-flag emulation of a kernel-side write rejection
	probe := r.path[0][0][0]
	if c12SetImmutable(probe, true) == nil {
		r.immOK = os.WriteFile(probe, []byte("x"), 0o644) != nil
		if err := c12SetImmutable(probe, false); err != nil {
			panic(err)
		}
	}
	r.drain()
	return r
}

func (r *c12Rig) close() { syscall.Close(r.ifd) }

// drain reads the inotify queue (events are queued by the kernel inside the write/close system call, so after a
// call has returned everything it wrote is in the queue) and returns the IN_CLOSE_WRITE count per watch.
func (r *c12Rig) drain() map[int32]int {
	var out map[int32]int
	for {
		n, err := syscall.Read(r.ifd, r.buf)
		if n <= 0 || err != nil {
			if err == syscall.EINTR {
				continue
			}
			return out
		}
		for off := 0; off+syscall.SizeofInotifyEvent <= n; {
			ev := (*syscall.InotifyEvent)(unsafe.Pointer(&r.buf[off]))
			if ev.Mask&(syscall.IN_DELETE_SELF|syscall.IN_MOVE_SELF|syscall.IN_Q_OVERFLOW) != 0 {
				panic(fmt.Sprintf("c12 harness: unexpected inotify event mask %#x: a file was replaced/removed or the queue overflowed", ev.Mask))
			}
			if ev.Mask&syscall.IN_CLOSE_WRITE != 0 {
				if out == nil {
					out = map[int32]int{}
				}
				out[ev.Wd]++
			}
			off += syscall.SizeofInotifyEvent + int(ev.Len)
		}
	}
}

func c12SetImmutable(path string, on bool) error {
	f, err := os.Open(path)
	if err != nil {
		return err
	}
	defer f.Close()
	const fsIocGetFlags, fsIocSetFlags, fsImmutable = 0x80086601, 0x40086602, 0x10
	var flags int32
	if _, _, e := syscall.Syscall(syscall.SYS_IOCTL, f.Fd(), fsIocGetFlags, uintptr(unsafe.Pointer(&flags))); e != 0 {
		return e
	}
	if on {
		flags |= fsImmutable
	} else {
		flags &^= fsImmutable
	}
	if _, _, e := syscall.Syscall(syscall.SYS_IOCTL, f.Fd(), fsIocSetFlags, uintptr(unsafe.Pointer(&flags))); e != 0 {
		return e
	}
	return nil
}

// ---------------------------------------------------------------------------------------------------------------
// one case, one execution
// ---------------------------------------------------------------------------------------------------------------

type c12Case struct {
	Kind string  `json:"kind"`
	V2   bool    `json:"cgroup_v2"`
	Tree string  `json:"tree"`
	Mode string  `json:"cache"` // cold | warm | force
	Tok  int     `json:"unlimited_token"`
	Old  []int64 `json:"old"`
	New  []int64 `json:"new"`
	// Then, when set, is a second, chained rewrite New -> Then executed on the SAME executor (cache kept) right
	// after Old -> New; it is judged write by write with the same oracle (keys carry the suffix |chained).
	Then []int64  `json:"then,omitempty"`
	Show []string `json:"show,omitempty"`
	// Reject lists the updater-call numbers whose file write is made to fail (kernel-reject emulation).
	Reject []int `json:"kernel_rejected_calls,omitempty"`
}

type c12Viol struct{ key, what string }

type c12Run struct {
	rig   *c12Rig
	c     *c12Case
	k     *c12Kind
	ki    int
	t     *c12Tree
	paths []string
	wdOf  map[int32]int
	cur   []string // tracked raw contents
	sem   []int64  // tracked semantic values
	phase string
	from  []int64 // start and target of the batch that is running (judging is relative to them)
	to    []int64
	sfx   string // key suffix of the running phase ("|chained" for the chained rewrite and what follows it)
	call  int
	immOn bool
	rej   map[int]bool

	writes     []int // per node, current phase
	trace      []string
	viols      []c12Viol
	rejectNew  []int
	nWrites    int
	nInter     int
	nMergeW    int
	nExactW    int
	nUnionW    int
	nReadback  int
	nBlocked   int
	nChained   int
	nSecond    int
	maxPerCall int
}

func (r *c12Run) violate(key, what string) {
	for _, v := range r.viols {
		if v.key == key {
			return
		}
	}
	r.viols = append(r.viols, c12Viol{key, what})
}

func (r *c12Run) readAll() []string {
	out := make([]string, len(r.paths))
	for i, p := range r.paths {
		b, err := os.ReadFile(p)
		if err != nil {
			panic(err)
		}
		out[i] = string(b)
	}
	return out
}

func (r *c12Run) before(node int) {
	r.call++
	if r.rej[r.call] {
		if err := c12SetImmutable(r.paths[node], true); err != nil {
			panic(err)
		}
		r.immOn = true
		r.nBlocked++
	}
}

// after is the observation point: called when one MergeUpdate()/update() of the real updater has returned.
func (r *c12Run) after(node int, op string) {
	if r.immOn {
		if err := c12SetImmutable(r.paths[node], false); err != nil {
			panic(err)
		}
		r.immOn = false
	}
	evs := r.rig.drain()
	total := 0
	for wd, n := range evs {
		nd, ok := r.wdOf[wd]
		if !ok || nd != node {
			panic(fmt.Sprintf("c12 harness: %s on node %d wrote a file outside its own (%v) case %+v", op, node, evs, *r.c))
		}
		total += n
	}
	if total > r.maxPerCall {
		r.maxPerCall = total
	}
	if total > 1 {
		// a crash between the two writes would be unobservable: the seam assumption is broken, not the property
		panic(fmt.Sprintf("c12 harness: %d file writes inside a single updater call (%s node %d), crash points inside a call are not observable; case %+v", total, op, node, *r.c))
	}
	if total == 0 {
		return
	}
	// crash point: exactly one more file write has hit the tree. Read ALL files back.
	snap := r.readAll()
	for i := range snap {
		if i != node && snap[i] != r.cur[i] {
			panic(fmt.Sprintf("c12 harness: file of node %d changed without a write event (%q -> %q)", i, r.cur[i], snap[i]))
		}
	}
	raw := snap[node]
	r.writes[node]++
	r.nWrites++
	if op == "merge" {
		r.nMergeW++
	} else {
		r.nExactW++
	}
	if len(r.trace) < 40 {
		r.trace = append(r.trace, fmt.Sprintf("call#%d %s/%s %s: %q -> %q", r.call, r.phase, op, c12Slots[r.t.Slot[node]], r.cur[node], raw))
	}
	v, ok := r.k.parse(raw, r.c.V2)
	if !ok {
		r.violate(r.keyf("unparsable-content-written")+r.sfx, fmt.Sprintf("file %s received %q, which is not a value of this interface", c12Slots[r.t.Slot[node]], raw))
		r.cur[node] = raw
		return
	}
	r.cur[node], r.sem[node] = raw, v
	if r.k.kernelRejects(raw, r.c.V2) {
		r.rejectNew = append(r.rejectNew, r.call)
	}
	if r.phase != "prime" {
		if r.k.IsSet && op == "merge" && v != r.to[node] {
			r.nUnionW++
		}
		if !c12Eq(r.sem, r.from) && !c12Eq(r.sem, r.to) {
			r.nInter++
		}
		if clause, p, c := c12HierarchyBroken(r.t, r.k, r.sem); clause != "" {
			pd := "none"
			if p >= 0 {
				pd = r.k.dir(r.from[p], r.to[p])
			}
			r.violate(r.keyf(clause)+"|parent-"+pd+",child-"+r.k.dir(r.from[c], r.to[c])+r.sfx,
				fmt.Sprintf("after file write %d (%s) a crash leaves %s: child %s=%s vs parent %s=%s", r.nWrites, r.trace[len(r.trace)-1],
					clause, c12Slots[r.t.Slot[c]], r.k.show(r.sem[c]), c12SlotName(r.t, p), c12ShowAt(r.k, r.sem, p)))
		}
	}
	// kernel read-back: the next reader sees the kernel's rendering of the value, not the raw string
	if rb := r.k.kernelContent(v, r.c.V2); rb != raw {
		if err := os.WriteFile(r.paths[node], []byte(rb), 0o644); err != nil {
			panic(err)
		}
		r.rig.drain()
		r.cur[node] = rb
		r.nReadback++
	}
}

func c12SlotName(t *c12Tree, i int) string {
	if i < 0 {
		return "-"
	}
	return c12Slots[t.Slot[i]]
}

func c12ShowAt(k *c12Kind, s []int64, i int) string {
	if i < 0 {
		return "-"
	}
	return k.show(s[i])
}

func c12Eq(a, b []int64) bool {
	for i := range a {
		if a[i] != b[i] {
			return false
		}
	}
	return true
}

func (r *c12Run) keyf(clause string) string {
	ver := "v1"
	if r.c.V2 {
		ver = "v2"
	}
	return "C12|" + r.k.Name + "|" + ver + "|" + clause
}

// c12Snap wraps a real updater: everything is delegated, MergeUpdate()/update() are bracketed by the observer.
type c12Snap struct {
	ResourceUpdater
	run  *c12Run
	node int
}

func (s *c12Snap) MergeUpdate() (ResourceUpdater, error) {
	s.run.before(s.node)
	m, err := s.ResourceUpdater.MergeUpdate()
	s.run.after(s.node, "merge")
	if m == s.ResourceUpdater {
		return s, err // keep the identity the executor caches
	}
	return m, err
}

func (s *c12Snap) update() error {
	s.run.before(s.node)
	err := s.ResourceUpdater.update()
	s.run.after(s.node, "update")
	return err
}

var c12EventHelper = &audit.EventHelper{}

func (r *c12Run) batch(vals []int64) [][]ResourceUpdater {
	nl := 0
	for _, l := range r.t.Level {
		if l+1 > nl {
			nl = l + 1
		}
	}
	levels := make([][]ResourceUpdater, nl)
	for i := range r.t.Parent {
		dir := filepath.Join(r.rig.prefix, c12Slots[r.t.Slot[i]])
		u, err := DefaultCgroupUpdaterFactory.New(r.k.RT, dir, r.k.callerToken(vals[i], r.c.Tok), c12EventHelper)
		if err != nil {
			panic(err)
		}
		if u.Path() != r.paths[i] {
			panic(fmt.Sprintf("c12 harness: updater path %s != watched path %s (cgroup version switched?)", u.Path(), r.paths[i]))
		}
		levels[r.t.Level[i]] = append(levels[r.t.Level[i]], &c12Snap{ResourceUpdater: u, run: r, node: i})
	}
	return levels
}

// c12Exec executes one case once (with the given rejected calls) on the real executor.
func c12Exec(rig *c12Rig, kinds []c12Kind, c *c12Case) *c12Run {
	ki := -1
	for i := range kinds {
		if kinds[i].Name == c.Kind {
			ki = i
		}
	}
	t := c12Trees[c.Tree]
	ver := 0
	if c.V2 {
		ver = 1
	}
	r := &c12Run{rig: rig, c: c, k: &kinds[ki], ki: ki, t: &t, wdOf: map[int32]int{}, rej: map[int]bool{}}
	for _, x := range c.Reject {
		r.rej[x] = true
	}
	n := len(t.Parent)
	r.paths = make([]string, n)
	r.cur = make([]string, n)
	r.sem = append([]int64(nil), c.Old...)
	r.writes = make([]int, n)
	for i := 0; i < n; i++ {
		r.paths[i] = rig.path[ver][ki][t.Slot[i]]
		r.wdOf[rig.wd[ver][ki][t.Slot[i]]] = i
		r.cur[i] = r.k.kernelContent(c.Old[i], c.V2)
		if err := os.WriteFile(r.paths[i], []byte(r.cur[i]), 0o644); err != nil {
			panic(err)
		}
	}
	rig.drain()
	if clause, _, _ := c12HierarchyBroken(r.t, r.k, c.Old); clause != "" {
		panic("c12 harness: start assignment invalid")
	}
	if clause, _, _ := c12HierarchyBroken(r.t, r.k, c.New); clause != "" {
		panic("c12 harness: target assignment invalid")
	}
	if c.Then != nil {
		if clause, _, _ := c12HierarchyBroken(r.t, r.k, c.Then); clause != "" {
			panic("c12 harness: chained target assignment invalid")
		}
	}

	// the real executor; time never matters: entries neither expire nor (except in mode force) become stale
	force := 1 << 30
	if c.Mode == "force" {
		force = -1 // "the force-update interval has elapsed" for every cache entry
	}
	e := &ResourceUpdateExecutorImpl{ResourceCache: cache.NewCache(1000*time.Hour, time.Hour), Config: &Config{ResourceForceUpdateSeconds: force}}
	stop := make(chan struct{})
	defer close(stop)
	e.Run(stop)

	if c.Mode != "cold" {
		// the cache is filled the way production fills it: by an earlier batch that applied the old assignment
		r.phase, r.from, r.to = "prime", c.Old, c.Old
		e.LeveledUpdateBatch(r.batch(c.Old))
		if !c12Eq(r.sem, c.Old) {
			r.violate(r.keyf("priming-batch-changed-values"), fmt.Sprintf("a batch with target == current values changed them: %v", r.trace))
			return r
		}
	}
	// rewrite judges one batch from -> to on the running executor: every write through after(), then the end state
	rewrite := func(phase, sfx string, from, to []int64) bool {
		r.phase, r.sfx, r.from, r.to = phase, sfx, from, to
		for i := range r.writes {
			r.writes[i] = 0
		}
		e.LeveledUpdateBatch(r.batch(to))
		if full := r.readAll(); strings.Join(full, "|") != strings.Join(r.cur, "|") {
			panic(fmt.Sprintf("c12 harness: tracked contents %q differ from files %q (missed write event)", r.cur, full))
		}
		reached := true
		for i := 0; i < n; i++ {
			if r.sem[i] != to[i] {
				reached = false
				r.violate(r.keyf("final-not-target")+"|"+r.k.dir(from[i], to[i])+sfx,
					fmt.Sprintf("%s batch finished but %s holds %s (raw %q), target %s (before the batch %s)", phase, c12Slots[t.Slot[i]], r.k.show(r.sem[i]), r.cur[i], r.k.show(to[i]), r.k.show(from[i])))
			}
			if from[i] == to[i] && r.writes[i] != 0 {
				r.violate(r.keyf("unchanged-file-rewritten")+sfx,
					fmt.Sprintf("%s batch: %s has old == new == %s but received %d write(s)", phase, c12Slots[t.Slot[i]], r.k.show(from[i]), r.writes[i]))
			}
		}
		return reached
	}
	last := c.New
	ok := rewrite("main", "", c.Old, c.New)
	if ok && c.Then != nil {
		// chained rewrite on the same executor: the cache now holds whatever the first rewrite left in it
		r.nChained++
		ok = rewrite("chained", "|chained", c.New, c.Then)
		last = c.Then
	}
	if ok {
		r.phase, r.from, r.to = "second", last, last
		for i := range r.writes {
			r.writes[i] = 0
		}
		before := r.nWrites
		e.LeveledUpdateBatch(r.batch(last))
		r.nSecond++
		if r.nWrites != before {
			r.violate(r.keyf("second-batch-writes")+r.sfx, fmt.Sprintf("an identical second batch performed %d file write(s)", r.nWrites-before))
		}
	}
	return r
}

// c12Sampled counts the example cases handed to the evidence for the running part (examples only, never a verdict).
var c12Sampled atomic.Int64
var c12SampleHere bool

// c12Judge runs a case on the most kernel-faithful flow and reports.
func c12Judge(rig *c12Rig, kinds []c12Kind, c c12Case, res *mc.Result, l *mc.Local, ds *mc.DistinctSet) {
	r := c12Exec(rig, kinds, &c)
	suffix := ""
	if len(r.rejectNew) > 0 {
		l.Count("cases_with_kernel_rejected_literal", 1)
		if rig.immOK {
			for it := 0; len(r.rejectNew) > 0 && it < 32; it++ {
				c.Reject = append(c.Reject, r.rejectNew[0])
				r = c12Exec(rig, kinds, &c)
			}
			if len(r.rejectNew) > 0 {
				panic("c12 harness: kernel-reject emulation does not converge")
			}
			suffix = "|kernel-reject-emulated"
			l.Count("cases_judged_on_kernel_reject_emulation", 1)
			l.Count("writes_blocked_like_kernel_einval", int64(r.nBlocked))
		} else {
			l.Count("cases_kernel_reject_not_emulated", 1)
		}
	}
	l.Evals++
	l.Count("cases_"+c.Tree, 1)
	l.Count("cases_cache_"+c.Mode, 1)
	l.Count("crash_points_judged", int64(r.nWrites))
	l.Count("crash_points_strictly_between_start_and_target", int64(r.nInter))
	l.Count("writes_pass1_merge", int64(r.nMergeW))
	l.Count("writes_pass2_exact", int64(r.nExactW))
	l.Count("writes_cpuset_union_differs_from_target", int64(r.nUnionW))
	l.Count("kernel_readback_normalisations", int64(r.nReadback))
	l.Max("max_writes_in_one_updater_call", int64(r.maxPerCall))
	l.Max("max_writes_in_one_case", int64(r.nWrites))
	changed, same := 0, 0
	dirs := map[string]bool{}
	for i := range c.Old {
		d := r.k.dir(c.Old[i], c.New[i])
		dirs[d] = true
		if d == "same" {
			same++
		} else {
			changed++
		}
	}
	l.Count("final_checks_changed_files", int64(changed))
	l.Count("unchanged_files_checked", int64(same))
	l.Count("second_batch_checked", int64(r.nSecond))
	l.Count("chained_rewrites_judged", int64(r.nChained))
	if c.Then != nil {
		for i := range c.New {
			if c.New[i] == c.Then[i] {
				l.Count("unchanged_files_checked", 1)
			} else {
				l.Count("final_checks_changed_files", 1)
			}
		}
	}
	// one readable example per part (bin/check shows at most 24 over all parts): shard 0, first case with >= 3 writes
	if c12SampleHere && r.nWrites >= 3 && c12Sampled.CompareAndSwap(0, 1) {
		res.Sample(fmt.Sprintf("%s -> %d file writes, each judged as a crash point: %s", strings.Join(c12ShowCase(r.k, &c), " "), r.nWrites, strings.Join(r.trace, " ; ")))
	}
	for d := range dirs {
		l.Count("cases_with_"+d, 1)
	}
	if r.nWrites >= 2 {
		ds.Add(fmt.Sprintf("%v", c)) // non-trivial: the order of at least two writes matters
	}
	for _, v := range r.viols {
		cc := c
		cc.Show = c12ShowCase(r.k, &c)
		res.Violate(mc.Violation{Key: v.key + suffix, What: fmt.Sprintf("%s | case %s | writes: %s", v.what, strings.Join(cc.Show, " "), strings.Join(r.trace, " ; ")), Replay: cc})
	}
}

func c12ShowCase(k *c12Kind, c *c12Case) []string {
	t := c12Trees[c.Tree]
	out := []string{fmt.Sprintf("%s v2=%v %s cache=%s:", c.Kind, c.V2, c.Tree, c.Mode)}
	for i := range c.Old {
		x := fmt.Sprintf("%s:%s->%s", c12Slots[t.Slot[i]], k.show(c.Old[i]), k.show(c.New[i]))
		if c.Then != nil {
			x += "->" + k.show(c.Then[i])
		}
		out = append(out, x)
	}
	return out
}

// ---------------------------------------------------------------------------------------------------------------
// the enumeration
// ---------------------------------------------------------------------------------------------------------------

type c12Block struct {
	tree  c12Tree
	ncpu  int
	valid [][]int64
	modes []string
	tail  string // b = chained rewrite back to the old assignment, a = chained rewrite to every valid assignment, n = none
	size  int64
}

type c12Part struct {
	name string
	ki   int
	v2   bool
	// "tree[/ncpu[/modes[/tail]]]": modes = letters of c=cold w=warm f=force (default cwf); tail = what follows the
	// judged rewrite old->new on the same executor: b (default) = chained rewrite new->old (there and back) then an
	// identical batch; a = chained rewrite new->C for EVERY valid C, then an identical batch; n = identical batch only
	blocks []string
}

// c12Plan lists the parts in execution order: small ones first, the big CPU-set blocks last, so that a time cap
// (reported, never an alarm) always hits the same, largest block.
func c12Plan(kinds []c12Kind, thorough bool) []c12Part {
	var parts []c12Part
	add := func(kname string, suffix string, blocks ...string) {
		for ki := range kinds {
			if kinds[ki].Name != kname {
				continue
			}
			for _, v2 := range []bool{false, true} {
				ver := "v1"
				if v2 {
					ver = "v2"
				}
				parts = append(parts, c12Part{name: "leveled-" + kname + "-" + ver + suffix, ki: ki, v2: v2, blocks: blocks})
			}
		}
	}
	if !thorough {
		add("cfs_quota", "", "chain2", "chain2/0/cwf/a", "chain2/0/cwf/n", "chain1", "chain1/0/cwf/a", "chain3", "chain3/0/cwf/n", "fan2", "fan2g")
		add("memory.min", "", "chain2", "chain2/0/cwf/a", "chain2/0/cwf/n", "chain1", "chain1/0/cwf/a", "chain3", "fan2")
		add("memory.low", "", "chain2", "chain2/0/cwf/n", "fan2")
		add("memory.high", "", "chain2", "chain2/0/cwf/n", "fan2")
		add("cpuset", "", "chain2/4", "chain2/3/cwf/a", "chain2/4/cwf/n", "chain1/4", "chain1/4/cwf/a", "chain3/4", "fan2/3")
		return parts
	}
	for _, kn := range []string{"cfs_quota", "memory.min", "memory.low", "memory.high"} {
		add(kn, "", "chain2", "chain2/0/cwf/a", "chain2/0/cwf/n", "chain1", "chain1/0/cwf/a", "chain3", "chain3/0/cwf/a", "chain3/0/cwf/n",
			"fan2", "fan2/0/cwf/a", "fan2/0/cwf/n", "fan2g", "fan2gg")
	}
	add("cpuset", "", "chain2/4", "chain2/4/cwf/a", "chain2/4/cwf/n", "chain1/4", "chain1/4/cwf/a", "chain3/4", "chain3/4/cwf/n", "fan2/4", "fan2/3/cwf/n")
	// the two big blocks: cache mode force re-runs every updater in pass 2 and is covered on the smaller trees
	add("cpuset", "-fan2g-cold", "fan2g/4/c")
	add("cpuset", "-fan2g-warm", "fan2g/4/w")
	add("cpuset", "-chain3-5cpu", "chain3/5/cw")
	return parts
}

func TestVerifC12Leveled(t *testing.T) {
	env := mc.LoadEnv()
	helper := sysutil.NewFileTestUtil(t)
	defer helper.Cleanup()
	helper.SetAnolisOSResourcesSupported(true) // memory.min/low/high exist on cgroup v1 only with the Anolis kernel
	// the helper's temp dir lives on disk; a tmpfs directory is an order of magnitude faster and equivalent for
	// the code under check (os.ReadFile/os.WriteFile/os.Stat below sysutil.Conf.CgroupRootDir)
	if st, err := os.Stat("/dev/shm"); err == nil && st.IsDir() {
		if d, err := os.MkdirTemp("/dev/shm", "verif-c12-"); err == nil {
			sysutil.Conf.CgroupRootDir = d
			defer os.RemoveAll(d)
		}
	}
	// sysutil.Conf (cgroup root) and the cgroup version are package globals of the code under check: they are set
	// once per part, before the workers start; every worker owns a directory prefix and an inotify instance, every
	// case owns its executor and cache. bin/check additionally splits the range over processes (spec: shards).
	kinds := c12AllKinds()
	rigs := make([]*c12Rig, env.Workers)
	for w := range rigs {
		rigs[w] = c12NewRig(w, kinds, helper.SetCgroupsV2)
		defer rigs[w].close()
	}

	var rc c12Case
	if part, ok := env.ReplayData(&rc); ok {
		res := mc.NewResult("C12", "replay", "faults")
		if !strings.HasPrefix(part, "leveled-") {
			env.Emit(res) // a replay file of the other unit
			return
		}
		helper.SetCgroupsV2(rc.V2)
		rc.Reject = nil
		env.ParallelRangeL(res, 1, func(l *mc.Local, _ int64) { c12Judge(rigs[l.Worker], kinds, rc, res, l, mc.NewDistinctSet()) })
		b, _ := json.Marshal(res.Violations)
		fmt.Printf("REPLAY %s\n", b)
		env.Emit(res)
		return
	}

	allModes := []string{"cold", "warm", "force"}
	for _, p := range c12Plan(kinds, env.Thorough()) {
		k := &kinds[p.ki]
		helper.SetCgroupsV2(p.v2)
		res := mc.NewResult("C12", p.name, "faults")
		c12Sampled.Store(0)
		c12SampleHere = env.Shard == 0
		var blocks []c12Block
		var total int64
		bounds := map[string]any{}
		for _, spec := range p.blocks {
			f := strings.Split(spec, "/")
			nm, ncpu, modes, tail := f[0], 0, allModes, "b"
			if len(f) > 3 {
				tail = f[3]
			}
			if len(f) > 1 {
				ncpu, _ = strconv.Atoi(f[1])
			}
			if len(f) > 2 {
				modes = nil
				for _, m := range allModes {
					if strings.Contains(f[2], m[:1]) {
						modes = append(modes, m)
					}
				}
			}
			tr := c12Trees[nm]
			dom := k.Vals
			if k.IsSet {
				dom = nil
				for m := int64(1); m < 1<<uint(ncpu); m++ {
					dom = append(dom, m)
				}
			}
			b := c12Block{tree: tr, ncpu: ncpu, valid: c12Valid(&tr, k, dom), modes: modes, tail: tail}
			b.size = int64(len(b.valid)) * int64(len(b.valid)) * int64(len(b.modes)) * int64(k.NTok)
			tailTxt := "then chained rewrite new->old on the same executor, then an identical batch"
			if tail == "a" {
				b.size *= int64(len(b.valid))
				tailTxt = fmt.Sprintf("then a chained rewrite new->C on the same executor for each of the %d valid C, then an identical batch", len(b.valid))
			} else if tail == "n" {
				tailTxt = "then an identical batch"
			}
			blocks = append(blocks, b)
			total += b.size
			bounds[spec] = fmt.Sprintf("%d hierarchy-valid assignments -> %d (old,new) pairs x %d cache modes x %d spellings of unlimited, %s = %d cases",
				len(b.valid), len(b.valid)*len(b.valid), len(b.modes), k.NTok, tailTxt, b.size)
		}
		ds := mc.NewDistinctSet()
		judgeAt := func(l *mc.Local, i int64) {
			var b *c12Block
			for bi := range blocks {
				if i < blocks[bi].size {
					b = &blocks[bi]
					break
				}
				i -= blocks[bi].size
			}
			nv := int64(len(b.valid))
			c := c12Case{Kind: k.Name, V2: p.v2, Tree: b.tree.Name}
			c.Mode = b.modes[i%int64(len(b.modes))]
			i /= int64(len(b.modes))
			c.Tok = int(i % int64(k.NTok))
			i /= int64(k.NTok)
			c.New = b.valid[i%nv]
			i /= nv
			c.Old = b.valid[i%nv]
			switch b.tail {
			case "b":
				c.Then = c.Old
			case "a":
				c.Then = b.valid[i/nv]
			}
			c12Judge(rigs[l.Worker], kinds, c, res, l, ds)
		}
		done, complete := env.ParallelRangeL(res, total, judgeAt)
		if env.Shard == 0 && res.Evaluations == 0 && total > 0 {
			// the budget was already used up when this part was reached: shard 0 still explores the first chunk, so
			// that the part is reported as a cap with real counts and one example instead of as an empty shell
			mini := &mc.Env{Tier: env.Tier, Workers: 1, Shards: 1, Budget: time.Duration(math.MaxInt64)}
			first := total
			if first > 256 {
				first = 256
			}
			done, _ = mini.ParallelRangeL(res, first, func(l *mc.Local, i int64) { judgeAt(l, i) })
			complete = complete && first == total
		}
		res.Traces = res.Evaluations
		res.Distinct = ds.Len()
		res.Exhaustive = complete
		if !complete {
			res.Capped = fmt.Sprintf("time budget hit after %d of %d cases of this shard's share (blocks in order %v)", done, total, p.blocks)
		}
		res.Bounds = bounds
		ver := "v1"
		if p.v2 {
			ver = "v2"
		}
		if k.IsSet {
			res.Rule = fmt.Sprintf("cgroup %s %s: blocks tree/#CPUs %v: every pair (old,new) of assignments of non-empty CPU sets with child subset of parent at both ends x cache {cold, warm = primed by a batch with the old values, force = force-update interval elapsed}; the real LeveledUpdateBatch runs with real updaters and every file write is a judged crash point; after the judged rewrite old->new a second, chained rewrite new->C runs on the SAME executor (cache kept) and is judged the same way (C = old for every case, every valid C on the blocks marked /a, none on /n), then an identical batch must stay silent; non-trivial = at least two file writes", ver, k.Name, p.blocks)
		} else {
			res.Rule = fmt.Sprintf("cgroup %s %s: trees %v: every pair (old,new) of assignments over %v (MaxInt64 = unlimited) with child <= parent at both ends x cache {cold, warm, force} x spelling of unlimited handed to the updater; the real LeveledUpdateBatch runs with real updaters and every file write is a judged crash point; after the judged rewrite old->new a second, chained rewrite new->C runs on the SAME executor (cache kept) and is judged the same way (C = old for every case, every valid C on the blocks marked /a, none on /n), then an identical batch must stay silent; non-trivial = at least two file writes", ver, k.Name, p.blocks, k.Vals)
		}
		res.Assumptions = []string{
			"files start with the kernel's rendering of the old value; after every observed write the harness replaces the raw string by the kernel's read-back of the same value (cpu.max gets its period field, MaxInt64 reads back as max)",
			"a literal the kernel's write handler rejects (\"-1\" into cpu.max) is emulated by re-running the case with that call's file immutable, so the write fails as on a real kernel; such cases carry the key suffix kernel-reject-emulated",
			"every cgroup of the subtree gets an updater in the batch (level = depth), one resource type per batch; no foreign writer touches the files during the batch",
			"cache entries never expire during a case (cache TTL 1000h; force-update interval 2^30 s, or 'always' in cache mode force)",
			"CPU sets are non-empty at start and target; the kernel requires non-emptiness only where tasks live (leaves)",
		}
		if !rigs[0].immOK {
			res.Diag("immutable-flag ioctl unavailable: kernel-rejected literals could not be emulated (cases counted in cases_kernel_reject_not_emulated)")
		}
		env.Emit(res)
	}
}
