package cpusuppress

// C12, second unit — BE cpuset two-phase rewrite (CPUSuppress.applyCPUSetWithNonePolicy: union top-down, target
// bottom-up) on a temp cgroup tree. The plugin creates its updaters itself, so the observation seam is the
// executor: c12ObsExecutor forwards every updater ONE AT A TIME to the real ResourceUpdateExecutorImpl and reads
// the inotify queue of the tree files in between (IN_CLOSE_WRITE = one file write = one crash point); after each
// write all files are read back and judged. Same oracle as the first unit, written from the statement.
//
// Serial inside a process: the plugin discovers the BE subtree by walking the (process-global) cgroup root, so a
// process holds one tree at a time; bin/check parallelises over processes (spec: shards).

import (
	"fmt"
	"os"
	"path/filepath"
	"strconv"
	"strings"
	"syscall"
	"testing"
	"time"
	"unsafe"

	topov1alpha1 "github.com/k8stopologyawareschedwg/noderesourcetopology-api/pkg/apis/topology/v1alpha1"
	corev1 "k8s.io/api/core/v1"
	metav1 "k8s.io/apimachinery/pkg/apis/meta/v1"

	apiext "github.com/koordinator-sh/koordinator/apis/extension"
	"github.com/koordinator-sh/koordinator/pkg/koordlet/metriccache"
	"github.com/koordinator-sh/koordinator/pkg/koordlet/statesinformer"

	"github.com/koordinator-sh/koordinator/pkg/koordlet/resourceexecutor"
	koordletutil "github.com/koordinator-sh/koordinator/pkg/koordlet/util"
	"github.com/koordinator-sh/koordinator/pkg/koordlet/util/system"
	"github.com/koordinator-sh/koordinator/pkg/util/cache"
	"github.com/koordinator-sh/koordinator/pkg/zzverif/mc"
)

func c12sList(m int) string {
	var parts []string
	for i := 0; i < 30; i++ {
		if m&(1<<uint(i)) == 0 {
			continue
		}
		j := i
		for m&(1<<uint(j+1)) != 0 {
			j++
		}
		if j == i {
			parts = append(parts, strconv.Itoa(i))
		} else {
			parts = append(parts, strconv.Itoa(i)+"-"+strconv.Itoa(j))
		}
		i = j
	}
	return strings.Join(parts, ",")
}

func c12sParse(s string) (int, bool) {
	s = strings.TrimSpace(s)
	m := 0
	if s == "" {
		return 0, true
	}
	for _, p := range strings.Split(s, ",") {
		lohi := strings.SplitN(p, "-", 2)
		lo, err := strconv.Atoi(lohi[0])
		if err != nil || lo < 0 || lo > 29 {
			return 0, false
		}
		hi := lo
		if len(lohi) == 2 {
			if hi, err = strconv.Atoi(lohi[1]); err != nil || hi < lo || hi > 29 {
				return 0, false
			}
		}
		for i := lo; i <= hi; i++ {
			m |= 1 << uint(i)
		}
	}
	return m, true
}

func c12sCPUs(m int) []int32 {
	var out []int32
	for i := 0; i < 30; i++ {
		if m&(1<<uint(i)) != 0 {
			out = append(out, int32(i))
		}
	}
	return out
}

type c12sTree struct {
	Name   string
	Parent []int
	Dirs   []string // relative to the BE QoS directory, "" = the BE directory itself
}

var c12sTrees = []c12sTree{
	{"be+pod", []int{-1, 0}, []string{"", "poda"}},
	{"be", []int{-1}, []string{""}},
	{"be+pod+container", []int{-1, 0, 1}, []string{"", "poda", "poda/c1"}},
	{"be+2pods", []int{-1, 0, 0}, []string{"", "poda", "podb"}},
	{"be+2pods+container", []int{-1, 0, 0, 1}, []string{"", "poda", "podb", "poda/c1"}},
}

func (t *c12sTree) leaf(i int) bool {
	for _, p := range t.Parent {
		if p == i {
			return false
		}
	}
	return true
}

func c12sValid(t *c12sTree, ncpu int) [][]int {
	var out [][]int
	cur := make([]int, len(t.Parent))
	var rec func(i int)
	rec = func(i int) {
		if i == len(cur) {
			out = append(out, append([]int(nil), cur...))
			return
		}
		for m := 1; m < 1<<uint(ncpu); m++ {
			if p := t.Parent[i]; p >= 0 && m&^cur[p] != 0 {
				continue
			}
			cur[i] = m
			rec(i + 1)
		}
	}
	rec(0)
	return out
}

// kubelet static CPU manager policy: applyBESuppressCPUSet first widens the BE directory and the pod directories to the
// whole BE share pool (recoverCPUSetIfNeed) and then writes the suppress result to the CONTAINER directories only.
type c12sSI struct {
	statesinformer.StatesInformer
	topo *topov1alpha1.NodeResourceTopology
}

func (s *c12sSI) GetNodeTopo() *topov1alpha1.NodeResourceTopology { return s.topo }
func (s *c12sSI) GetAllPods() []*statesinformer.PodMeta           { return nil }

type c12sMC struct {
	metriccache.MetricCache
	info *metriccache.NodeCPUInfo
}

func (m *c12sMC) Get(key interface{}) (interface{}, bool) {
	if key == metriccache.NodeCPUInfoKey {
		return m.info, true
	}
	return nil, false
}

// c12sWant: what a node of the tree must hold when the rewrite is finished.
func c12sWant(c *c12sCase, t *c12sTree, i, ncpu int) int {
	if c.Mode == "static" && strings.Count(t.Dirs[i], "/") == 0 { // the BE directory and the pod directories: the whole share pool
		return 1<<uint(ncpu) - 1
	}
	return c.Target
}

type c12sCase struct {
	V2     bool   `json:"cgroup_v2"`
	Tree   string `json:"tree"`
	Mode   string `json:"cache"`
	Old    []int  `json:"old_masks"`
	Target int    `json:"target_mask"`
	Show   string `json:"show,omitempty"`
}

// c12ObsExecutor is the observation seam: a ResourceUpdateExecutor that hands the plugin's updaters to the real
// executor one by one.
type c12ObsExecutor struct {
	real *resourceexecutor.ResourceUpdateExecutorImpl
	obs  func(u resourceexecutor.ResourceUpdater)
}

func (o *c12ObsExecutor) Update(cacheable bool, u resourceexecutor.ResourceUpdater) (bool, error) {
	ok, err := o.real.Update(cacheable, u)
	o.obs(u)
	return ok, err
}
func (o *c12ObsExecutor) UpdateBatch(cacheable bool, us ...resourceexecutor.ResourceUpdater) {
	for _, u := range us {
		o.real.UpdateBatch(cacheable, u)
		o.obs(u)
	}
}
func (o *c12ObsExecutor) LeveledUpdateBatch(us [][]resourceexecutor.ResourceUpdater) {
	panic("c12 harness: applyCPUSetWithNonePolicy is not expected to use LeveledUpdateBatch; observation seam must be extended")
}
func (o *c12ObsExecutor) Run(stop <-chan struct{}) { o.real.Run(stop) }

type c12sRig struct {
	ifd   int
	buf   []byte
	tree  *c12sTree
	paths []string
	wdOf  map[int32]int
}

func (r *c12sRig) drain() map[int32]int {
	var out map[int32]int
	for {
		n, err := syscall.Read(r.ifd, r.buf)
		if n <= 0 || err != nil {
			if err == syscall.EINTR {
				continue
			}
			return out
		}
		for off := 0; off+syscall.SizeofInotifyEvent <= n; {
			ev := (*syscall.InotifyEvent)(unsafe.Pointer(&r.buf[off]))
			if ev.Mask&(syscall.IN_DELETE_SELF|syscall.IN_MOVE_SELF|syscall.IN_Q_OVERFLOW) != 0 {
				panic(fmt.Sprintf("c12 harness: unexpected inotify event %#x", ev.Mask))
			}
			if ev.Mask&syscall.IN_CLOSE_WRITE != 0 {
				if out == nil {
					out = map[int32]int{}
				}
				out[ev.Wd]++
			}
			off += syscall.SizeofInotifyEvent + int(ev.Len)
		}
	}
}

func c12sSetup(v2 bool, t *c12sTree) *c12sRig {
	res, err := system.GetCgroupResource(system.CPUSetCPUSName)
	if err != nil {
		panic(err)
	}
	beDir := koordletutil.GetPodQoSRelativePath(corev1.PodQOSBestEffort)
	beAbs := filepath.Dir(res.Path(beDir))
	if err := os.RemoveAll(beAbs); err != nil {
		panic(err)
	}
	fd, err := syscall.InotifyInit1(syscall.IN_NONBLOCK | syscall.IN_CLOEXEC)
	if err != nil {
		panic(fmt.Sprintf("c12 harness: inotify unavailable: %v", err))
	}
	r := &c12sRig{ifd: fd, buf: make([]byte, 16384), tree: t, wdOf: map[int32]int{}}
	for i, d := range t.Dirs {
		p := res.Path(filepath.Join(beDir, d))
		if err := os.MkdirAll(filepath.Dir(p), 0o777); err != nil {
			panic(err)
		}
		if err := os.WriteFile(p, nil, 0o644); err != nil {
			panic(err)
		}
		wd, err := syscall.InotifyAddWatch(fd, p, syscall.IN_CLOSE_WRITE|syscall.IN_DELETE_SELF|syscall.IN_MOVE_SELF)
		if err != nil {
			panic(err)
		}
		r.paths = append(r.paths, p)
		r.wdOf[int32(wd)] = i
	}
	r.drain()
	return r
}

type c12sRun struct {
	rig    *c12sRig
	c      *c12sCase
	cur    []string
	sem    []int
	phase  string
	writes []int
	nW     int
	nInter int
	trace  []string
	viols  [][2]string
}

func (r *c12sRun) violate(key, what string) {
	for _, v := range r.viols {
		if v[0] == key {
			return
		}
	}
	r.viols = append(r.viols, [2]string{key, what})
}

func (r *c12sRun) key(clause string) string {
	ver := "v1"
	if r.c.V2 {
		ver = "v2"
	}
	return "C12|be-cpuset-suppress|" + ver + "|" + clause
}

func c12sDir(old, new int) string {
	switch {
	case old == new:
		return "same"
	case old&^new == 0:
		return "grow"
	case new&^old == 0:
		return "shrink"
	}
	return "shift"
}

func (r *c12sRun) observe(u resourceexecutor.ResourceUpdater) {
	evs := r.rig.drain()
	total, node := 0, -1
	for wd, n := range evs {
		nd, ok := r.rig.wdOf[wd]
		if !ok {
			panic("c12 harness: write event on an unknown watch")
		}
		if r.rig.paths[nd] != u.Path() {
			panic(fmt.Sprintf("c12 harness: updater for %s wrote %s", u.Path(), r.rig.paths[nd]))
		}
		node = nd
		total += n
	}
	if total > 1 {
		panic(fmt.Sprintf("c12 harness: %d writes inside one updater call; crash points inside a call are not observable", total))
	}
	if total == 0 {
		return
	}
	t := r.rig.tree
	snap := make([]string, len(r.rig.paths))
	for i, p := range r.rig.paths {
		b, err := os.ReadFile(p)
		if err != nil {
			panic(err)
		}
		snap[i] = string(b)
		if i != node && snap[i] != r.cur[i] {
			panic("c12 harness: a file changed without a write event")
		}
	}
	raw := snap[node]
	r.writes[node]++
	r.nW++
	if len(r.trace) < 40 {
		r.trace = append(r.trace, fmt.Sprintf("%s %q: %q -> %q", r.phase, t.Dirs[node], r.cur[node], raw))
	}
	v, ok := c12sParse(raw)
	r.cur[node] = raw
	if !ok {
		r.violate(r.key("unparsable-content-written"), fmt.Sprintf("%q received %q", t.Dirs[node], raw))
		return
	}
	r.sem[node] = v
	if r.phase != "prime" {
		inter := false
		for i := range r.sem {
			if r.sem[i] != r.c.Old[i] {
				inter = true
			}
		}
		if inter {
			for i := range r.sem {
				if r.sem[i] != r.c.Target {
					r.nInter++
					break
				}
			}
		}
		for i, p := range t.Parent {
			if r.sem[i] == 0 && t.leaf(i) {
				r.violate(r.key("empty-cpuset-after-write"), fmt.Sprintf("after write %d (%s) leaf %q is empty", r.nW, r.trace[len(r.trace)-1], t.Dirs[i]))
			}
			if p >= 0 && r.sem[i]&^r.sem[p] != 0 {
				r.violate(r.key("child-not-subset-after-write")+"|parent-"+c12sDir(r.c.Old[p], r.c.Target)+",child-"+c12sDir(r.c.Old[i], r.c.Target),
					fmt.Sprintf("after file write %d (%s) a crash leaves child %q={%s} outside parent %q={%s}", r.nW, r.trace[len(r.trace)-1], t.Dirs[i], c12sList(r.sem[i]), t.Dirs[p], c12sList(r.sem[p])))
			}
		}
	}
	if rb := c12sList(v) + "\n"; rb != raw { // kernel read-back
		if err := os.WriteFile(r.rig.paths[node], []byte(rb), 0o644); err != nil {
			panic(err)
		}
		r.rig.drain()
		r.cur[node] = rb
	}
}

func c12sExec(rig *c12sRig, c *c12sCase) *c12sRun {
	t := rig.tree
	r := &c12sRun{rig: rig, c: c, cur: make([]string, len(t.Parent)), sem: append([]int(nil), c.Old...), writes: make([]int, len(t.Parent))}
	for i, p := range rig.paths {
		r.cur[i] = c12sList(c.Old[i]) + "\n"
		if err := os.WriteFile(p, []byte(r.cur[i]), 0o644); err != nil {
			panic(err)
		}
	}
	rig.drain()
	force := 1 << 30
	if c.Mode == "force" {
		force = -1
	}
	obs := &c12ObsExecutor{real: &resourceexecutor.ResourceUpdateExecutorImpl{Config: &resourceexecutor.Config{ResourceForceUpdateSeconds: force},
		ResourceCache: cache.NewCache(1000*time.Hour, time.Hour)}, obs: r.observe}
	stop := make(chan struct{})
	defer close(stop)
	plugin := &CPUSuppress{executor: obs, cgroupReader: resourceexecutor.NewCgroupReader(), suppressPolicyStatuses: map[string]suppressPolicyStatus{}}
	plugin.init(stop)
	const ncpuAll = 4 // the node's CPUs 0..3 (the alphabet of the unit); nothing is reserved or exclusive: the BE share pool is all of them
	apply := func(target int) error { return plugin.applyCPUSetWithNonePolicy(c12sCPUs(target), c12sCPUs(r.sem[0])) }
	if c.Mode == "static" {
		info := &metriccache.NodeCPUInfo{}
		for i := 0; i < ncpuAll; i++ {
			info.ProcessorInfos = append(info.ProcessorInfos, koordletutil.ProcessorInfo{CPUID: int32(i), CoreID: int32(i), SocketID: 0, NodeID: 0})
		}
		plugin.metricCache = &c12sMC{info: info}
		plugin.statesInformer = &c12sSI{topo: &topov1alpha1.NodeResourceTopology{ObjectMeta: metav1.ObjectMeta{Name: "node",
			Annotations: map[string]string{apiext.AnnotationKubeletCPUManagerPolicy: `{"policy":"static"}`}}}}
		apply = func(target int) error { return plugin.applyBESuppressCPUSet(c12sCPUs(target), c12sCPUs(r.sem[0])) }
	}

	// what adjustByCPUSet hands over as the old set: the current (effective) CPU set of the BE QoS cgroup, which in
	// a valid hierarchy is the value of its cpuset.cpus
	readOld := func() []int32 { return c12sCPUs(r.sem[0]) }
	if c.Mode != "cold" && c.Mode != "static" {
		// previous suppress round: the tree was brought to its (uniform) old value through the same path
		r.phase = "prime"
		if err := plugin.applyCPUSetWithNonePolicy(c12sCPUs(c.Old[0]), readOld()); err != nil {
			panic(err)
		}
		for i := range r.sem {
			if r.sem[i] != c.Old[i] {
				panic("c12 harness: priming changed a value")
			}
		}
	}
	r.phase = "main"
	for i := range r.writes {
		r.writes[i] = 0
	}
	if err := apply(c.Target); err != nil {
		r.violate(r.key("apply-failed"), err.Error())
		return r
	}
	for i, p := range rig.paths {
		b, _ := os.ReadFile(p)
		if string(b) != r.cur[i] {
			panic("c12 harness: tracked contents differ from the files (missed write event)")
		}
		if want := c12sWant(c, t, i, ncpuAll); r.sem[i] != want {
			r.violate(r.key("final-not-target")+"|"+c12sDir(c.Old[i], want), fmt.Sprintf("rewrite finished but %q holds {%s}, target {%s}", t.Dirs[i], c12sList(r.sem[i]), c12sList(want)))
		}
		if c.Mode == "static" {
			continue // (whether the recovery rewrites an unchanged directory is not judged for this path)
		}
		if c.Old[i] == c.Target && r.writes[i] != 0 {
			uniform := "uniform-start"
			for _, o := range c.Old {
				if o != c.Old[0] {
					uniform = "non-uniform-start"
				}
			}
			r.violate(r.key("unchanged-file-rewritten")+"|"+uniform, fmt.Sprintf("%q has old == target == {%s} but received %d write(s)", t.Dirs[i], c12sList(c.Target), r.writes[i]))
		}
	}
	if c.Mode == "static" {
		return r
	}
	r.phase = "second"
	before := r.nW
	if err := plugin.applyCPUSetWithNonePolicy(c12sCPUs(c.Target), readOld()); err != nil {
		panic(err)
	}
	if r.nW != before {
		r.violate(r.key("second-round-writes"), fmt.Sprintf("an identical second round performed %d file write(s)", r.nW-before))
	}
	return r
}

func TestVerifC12Suppress(t *testing.T) {
	env := mc.LoadEnv()
	helper := system.NewFileTestUtil(t)
	defer helper.Cleanup()
	if st, err := os.Stat("/dev/shm"); err == nil && st.IsDir() {
		if d, err := os.MkdirTemp("/dev/shm", "verif-c12s-"); err == nil {
			system.Conf.CgroupRootDir = d
			defer os.RemoveAll(d)
		}
	}
	const ncpu = 4
	var rc c12sCase
	if part, ok := env.ReplayData(&rc); ok {
		res := mc.NewResult("C12", "replay-suppress", "faults")
		if strings.HasPrefix(part, "be-suppress-") {
			helper.SetCgroupsV2(rc.V2)
			for ti := range c12sTrees {
				if c12sTrees[ti].Name == rc.Tree {
					r := c12sExec(c12sSetup(rc.V2, &c12sTrees[ti]), &rc)
					res.Evaluations++
					for _, v := range r.viols {
						res.Violate(mc.Violation{Key: v[0], What: v[1] + " | writes: " + strings.Join(r.trace, " ; "), Replay: rc})
					}
					fmt.Printf("REPLAY %v writes: %v\n", r.viols, r.trace)
				}
			}
		}
		env.Emit(res)
		return
	}
	for _, v2 := range []bool{false, true} {
		helper.SetCgroupsV2(v2)
		ver := "v1"
		if v2 {
			ver = "v2"
		}
		res := mc.NewResult("C12", "be-suppress-cpuset-"+ver, "faults")
		ds := mc.NewDistinctSet()
		bounds := map[string]any{}
		complete := true
		var idx int64
		for ti := range c12sTrees {
			tr := &c12sTrees[ti]
			rig := c12sSetup(v2, tr)
			valid := c12sValid(tr, ncpu)
			ncase := 0
			for _, old := range valid {
				uniform := true
				for _, o := range old {
					uniform = uniform && o == old[0]
				}
				for target := 1; target < 1<<ncpu; target++ {
					for _, mode := range []string{"cold", "warm", "force", "static"} {
						if mode != "cold" && mode != "static" && !uniform {
							continue // a previous round leaves a uniform tree; other starts are only explored cold
						}
						ncase++
						idx++
						if !env.Mine(int(idx / 64)) {
							continue
						}
						if env.Expired() {
							complete = false
							continue
						}
						c := c12sCase{V2: v2, Tree: tr.Name, Mode: mode, Old: old, Target: target}
						r := c12sExec(rig, &c)
						res.Evaluations++
						res.Count("cases_"+tr.Name, 1)
						res.Count("cases_cache_"+mode, 1)
						res.Count("crash_points_judged", int64(r.nW))
						res.Count("crash_points_strictly_between_start_and_target", int64(r.nInter))
						res.MaxCounter("max_writes_in_one_case", int64(r.nW))
						for i := range old {
							if old[i] == target {
								res.Count("unchanged_files_checked", 1)
							} else {
								res.Count("final_checks_changed_files", 1)
							}
							res.Count("cases_nodes_"+c12sDir(old[i], target), 1)
						}
						if r.nW >= 2 {
							ds.Add(fmt.Sprintf("%v", c))
						}
						if env.Shard == 0 && r.nW >= 3 && len(res.Samples) == 0 { // one readable example per part
							res.Sample(fmt.Sprintf("cgroup %s BE subtree %s %v cache=%s old=%v target={%s} -> %d file writes, each judged as a crash point: %s",
								ver, tr.Name, tr.Dirs, mode, c12sShow(old), c12sList(target), r.nW, strings.Join(r.trace, " ; ")))
						}
						for _, v := range r.viols {
							c.Show = fmt.Sprintf("%s %s cache=%s old=%v target={%s}", ver, tr.Name, mode, c12sShow(old), c12sList(target))
							res.Violate(mc.Violation{Key: v[0], What: v[1] + " | case " + c.Show + " | writes: " + strings.Join(r.trace, " ; "), Replay: c})
						}
					}
				}
			}
			bounds[tr.Name] = fmt.Sprintf("%d hierarchy-valid start assignments x 15 targets (x3 cache modes for uniform starts) = %d cases", len(valid), ncase)
			syscall.Close(rig.ifd)
		}
		res.Traces = res.Evaluations
		res.Distinct = ds.Len()
		res.Exhaustive = complete
		if !complete {
			res.Capped = "time budget hit; remaining cases of this shard skipped"
		}
		res.Bounds = bounds
		res.Rule = fmt.Sprintf("cgroup %s: BE subtree shapes %v x every hierarchy-valid start assignment of non-empty CPU sets over CPUs 0..%d x every non-empty target set (the plugin writes one set to the whole subtree; old set = current value of the BE cgroup, as adjustByCPUSet reads it) x cache {cold; warm/force only for uniform starts}; the real applyCPUSetWithNonePolicy runs on the real executor, every file write is a judged crash point; non-trivial = at least two file writes", ver, []string{"be", "be+pod", "be+pod+container", "be+2pods", "be+2pods+container"}, ncpu-1)
		res.Assumptions = []string{
			"files start with the kernel's rendering of the old value and are re-rendered by the harness after each observed write (trailing newline, canonical range list)",
			"no foreign writer (kubelet, runtime) touches the BE subtree during the rewrite; cache entries never expire during a case",
		}
		env.Emit(res)
	}
}

func c12sShow(old []int) []string {
	var out []string
	for _, o := range old {
		out = append(out, "{"+c12sList(o)+"}")
	}
	return out
}
