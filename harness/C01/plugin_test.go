package elasticquota

// C01 plugin part: the same accounting property, driven through the plugin's informer handlers and scheduling hooks
// (quota_handler.go, pod_handler.go, Reserve/Unreserve, the default-group migration) instead of the core entry points:
// pods are routed by their quota label, pods whose quota does not exist (yet) live in the default group and are
// migrated later, pods of a deleted quota re-enter through their next event. BFS over event histories; the oracle
// recomputes every group's figures from the objects the events established.

import (
	"context"
	"fmt"
	"sort"
	"strings"
	"testing"

	corev1 "k8s.io/api/core/v1"
	"k8s.io/apimachinery/pkg/api/resource"
	metav1 "k8s.io/apimachinery/pkg/apis/meta/v1"
	"k8s.io/apimachinery/pkg/types"

	"github.com/koordinator-sh/koordinator/apis/extension"
	"github.com/koordinator-sh/koordinator/apis/thirdparty/scheduler-plugins/pkg/apis/scheduling/v1alpha1"
	"github.com/koordinator-sh/koordinator/pkg/scheduler/apis/config"
	"github.com/koordinator-sh/koordinator/pkg/scheduler/plugins/elasticquota/core"
	"github.com/koordinator-sh/koordinator/pkg/zzverif/mc"
)

type c01pVec [2]int64 // cpu milli, memory

func (v c01pVec) add(o c01pVec) c01pVec { return c01pVec{v[0] + o[0], v[1] + o[1]} }
func (v c01pVec) min(o c01pVec) c01pVec {
	r := v
	for i := range r {
		if o[i] < r[i] {
			r[i] = o[i]
		}
	}
	return r
}
func (v c01pVec) max(o c01pVec) c01pVec {
	r := v
	for i := range r {
		if o[i] > r[i] {
			r[i] = o[i]
		}
	}
	return r
}

func c01pRL(v c01pVec) corev1.ResourceList {
	return corev1.ResourceList{
		corev1.ResourceCPU:    *resource.NewMilliQuantity(v[0], resource.DecimalSI),
		corev1.ResourceMemory: *resource.NewQuantity(v[1], resource.BinarySI),
	}
}

func c01pFromRL(rl corev1.ResourceList) c01pVec {
	var v c01pVec
	if q, ok := rl[corev1.ResourceCPU]; ok {
		v[0] = q.MilliValue()
	}
	if q, ok := rl[corev1.ResourceMemory]; ok {
		v[1] = q.Value()
	}
	return v
}

const c01pHuge = int64(1) << 40

type c01pQ struct {
	Name, Parent   string
	IsParent, Lend bool
	Max, Min       c01pVec
}

func (q c01pQ) obj(rv int) *v1alpha1.ElasticQuota {
	eq := &v1alpha1.ElasticQuota{
		ObjectMeta: metav1.ObjectMeta{Name: q.Name, Namespace: "ns", Labels: map[string]string{}, Annotations: map[string]string{}, ResourceVersion: fmt.Sprint(rv)},
		Spec:       v1alpha1.ElasticQuotaSpec{Max: c01pRL(q.Max), Min: c01pRL(q.Min)},
	}
	eq.Labels[extension.LabelQuotaParent] = q.Parent
	eq.Labels[extension.LabelQuotaIsParent] = fmt.Sprint(q.IsParent)
	eq.Labels[extension.LabelAllowLentResource] = fmt.Sprint(q.Lend)
	return eq
}

type c01pPod struct {
	label    string // the quota the pod names
	group    string // where the events put it ("" = tracked nowhere)
	req      c01pVec
	assigned bool
	obj      *corev1.Pod
	rv       int
}

func c01pMakePod(name, label string, req c01pVec, node string, rv int) *corev1.Pod {
	rl := corev1.ResourceList{}
	if req[0] > 0 {
		rl[corev1.ResourceCPU] = *resource.NewMilliQuantity(req[0], resource.DecimalSI)
	}
	if req[1] > 0 {
		rl[corev1.ResourceMemory] = *resource.NewQuantity(req[1], resource.BinarySI)
	}
	p := &corev1.Pod{
		ObjectMeta: metav1.ObjectMeta{Name: name, Namespace: "ns", UID: types.UID(name), ResourceVersion: fmt.Sprint(rv),
			Labels: map[string]string{extension.LabelQuotaName: label}},
		Spec:   corev1.PodSpec{NodeName: node, Containers: []corev1.Container{{Name: "c", Resources: corev1.ResourceRequirements{Requests: rl}}}},
		Status: corev1.PodStatus{Phase: corev1.PodPending},
	}
	if node != "" {
		p.Status.Phase = corev1.PodRunning
	}
	return p
}

type c01pOp struct {
	name    string
	enabled func(s *c01pSys) bool
	apply   func(s *c01pSys)
}

type c01pSys struct {
	ops    []c01pOp
	pl     *Plugin
	quotas map[string]c01pQ
	qobj   map[string]*v1alpha1.ElasticQuota
	pods   map[string]*c01pPod
	rv     int
	last   string
}

func c01pNewPlugin() *Plugin {
	args := &config.ElasticQuotaArgs{
		DefaultQuotaGroupMax: c01pRL(c01pVec{c01pHuge * 1000, c01pHuge}),
		SystemQuotaGroupMax:  c01pRL(c01pVec{c01pHuge * 1000, c01pHuge}),
		QuotaGroupNamespace:  "ns",
	}
	pl := &Plugin{
		pluginArgs:                     args,
		groupQuotaManagersForQuotaTree: map[string]*core.GroupQuotaManager{},
		quotaToTreeMap:                 map[string]string{extension.DefaultQuotaName: "", extension.SystemQuotaName: ""},
		quotaSnapshot:                  map[string]*core.QuotaSnapshot{},
		quotaToTreeMapSnapshot:         map[string]string{},
	}
	pl.groupQuotaManager = core.NewGroupQuotaManager("", false, args.SystemQuotaGroupMax, args.DefaultQuotaGroupMax)
	return pl
}

func c01pNewSys(ops []c01pOp) *c01pSys {
	return &c01pSys{ops: ops, pl: c01pNewPlugin(), quotas: map[string]c01pQ{}, qobj: map[string]*v1alpha1.ElasticQuota{}, pods: map[string]*c01pPod{}}
}

// route is the documented routing rule: a pod lives in the quota its label names if that quota is registered,
// otherwise in the default group.
func (s *c01pSys) route(label string) string {
	if _, ok := s.quotas[label]; ok {
		return label
	}
	return extension.DefaultQuotaName
}

func (s *c01pSys) children(g string) []string {
	var out []string
	for n, q := range s.quotas {
		if q.Parent == g {
			out = append(out, n)
		}
	}
	if g == extension.RootQuotaName {
		out = append(out, extension.DefaultQuotaName, extension.SystemQuotaName)
	}
	sort.Strings(out)
	return out
}

var c01pVariants = map[string][]c01pQ{
	"P": {{"P", extension.RootQuotaName, true, false, c01pVec{8000, 8}, c01pVec{4000, 4}}, {"P", extension.RootQuotaName, true, true, c01pVec{6000, 6}, c01pVec{2000, 2}}},
	"A": {{"A", "P", false, false, c01pVec{4000, 4}, c01pVec{2000, 2}}, {"A", "P", false, true, c01pVec{2000, 2}, c01pVec{0, 0}}, {"A", extension.RootQuotaName, false, true, c01pVec{4000, 4}, c01pVec{0, 0}}},
	"B": {{"B", "P", false, true, c01pVec{4000, 4}, c01pVec{1000, 1}}},
	"Z": {{"Z", extension.RootQuotaName, false, true, c01pVec{4000, 4}, c01pVec{1000, 1}}},
}
var c01pQNames = []string{"P", "A", "B", "Z"}

type c01pPodDef struct {
	name   string
	labels []string // labels[0] initial, the relabel event toggles to labels[1]
	req    c01pVec
	alt    c01pVec
}

func c01pBuildOps(pods []c01pPodDef) []c01pOp {
	var ops []c01pOp
	for _, qn := range c01pQNames {
		qn := qn
		for vi, spec := range c01pVariants[qn] {
			spec := spec
			ops = append(ops, c01pOp{name: fmt.Sprintf("quota(%s:=v%d{parent=%s,lend=%v,max=%v,min=%v})", qn, vi, spec.Parent, spec.Lend, spec.Max, spec.Min),
				enabled: func(s *c01pSys) bool {
					cur, exists := s.quotas[qn]
					if exists && cur == spec {
						return false
					}
					if spec.Parent != extension.RootQuotaName {
						pq, ok := s.quotas[spec.Parent]
						if !ok || !pq.IsParent {
							return false
						}
					}
					return true
				},
				apply: func(s *c01pSys) {
					s.rv++
					obj := spec.obj(s.rv)
					if old, ok := s.qobj[qn]; ok {
						s.pl.OnQuotaUpdate(old, obj)
					} else {
						s.pl.OnQuotaAdd(obj)
					}
					s.quotas[qn], s.qobj[qn] = spec, obj
				}})
		}
		ops = append(ops, c01pOp{name: "quotaDelete(" + qn + ")",
			enabled: func(s *c01pSys) bool { _, ok := s.quotas[qn]; return ok && len(s.children(qn)) == 0 },
			apply: func(s *c01pSys) {
				s.pl.OnQuotaDelete(s.qobj[qn])
				delete(s.quotas, qn)
				delete(s.qobj, qn)
				// the members of a deleted quota are tracked nowhere until their next event routes them again
				for _, p := range s.pods {
					if p.group == qn {
						p.group, p.assigned = "", false
					}
				}
			}})
	}
	for _, pd := range pods {
		pd := pd
		pn := pd.name
		for _, bound := range []bool{false, true} {
			bound := bound
			ops = append(ops, c01pOp{name: fmt.Sprintf("podAdd(%s,bound=%v)", pn, bound),
				enabled: func(s *c01pSys) bool { _, ok := s.pods[pn]; return !ok },
				apply: func(s *c01pSys) {
					node := ""
					if bound {
						node = "n1"
					}
					obj := c01pMakePod(pn, pd.labels[0], pd.req, node, 1)
					s.pl.OnPodAdd(obj)
					s.pods[pn] = &c01pPod{label: pd.labels[0], group: s.route(pd.labels[0]), req: pd.req, assigned: bound, obj: obj, rv: 1}
				}})
		}
		update := func(s *c01pSys, label string, req c01pVec, node string) {
			p := s.pods[pn]
			p.rv++
			obj := c01pMakePod(pn, label, req, node, p.rv)
			s.pl.OnPodUpdate(p.obj, obj)
			newGroup := s.route(label)
			switch {
			case p.group == "":
				// re-enters through this event; a bound pod is charged as used (fail-over branch)
				p.assigned = node != ""
			case newGroup != p.group:
				p.assigned = node != ""
			default:
				p.assigned = p.assigned || node != ""
			}
			p.group, p.label, p.req, p.obj = newGroup, label, req, obj
		}
		ops = append(ops,
			c01pOp{name: "podUpdateRequest(" + pn + ")",
				enabled: func(s *c01pSys) bool { _, ok := s.pods[pn]; return ok },
				apply: func(s *c01pSys) {
					p := s.pods[pn]
					nr := pd.alt
					if p.req == pd.alt {
						nr = pd.req
					}
					update(s, p.label, nr, p.obj.Spec.NodeName)
				}},
			c01pOp{name: "podBound(" + pn + ")",
				enabled: func(s *c01pSys) bool { p, ok := s.pods[pn]; return ok && p.obj.Spec.NodeName == "" },
				apply:   func(s *c01pSys) { p := s.pods[pn]; update(s, p.label, p.req, "n1") }},
			c01pOp{name: "podRelabel(" + pn + ")",
				// (a quota-label change while the pod is assumed but not yet bound is not produced by the environment)
				enabled: func(s *c01pSys) bool {
					p, ok := s.pods[pn]
					return ok && len(pd.labels) > 1 && !(p.assigned && p.obj.Spec.NodeName == "")
				},
				apply: func(s *c01pSys) {
					p := s.pods[pn]
					nl := pd.labels[1]
					if p.label == nl {
						nl = pd.labels[0]
					}
					update(s, nl, p.req, p.obj.Spec.NodeName)
				}},
			c01pOp{name: "podDelete(" + pn + ")",
				enabled: func(s *c01pSys) bool { _, ok := s.pods[pn]; return ok },
				apply:   func(s *c01pSys) { s.pl.OnPodDelete(s.pods[pn].obj); delete(s.pods, pn) }},
			c01pOp{name: "reserve(" + pn + ")",
				// the scheduler only reserves a pod it tracks (it came through PreFilter in the same cycle)
				enabled: func(s *c01pSys) bool {
					p, ok := s.pods[pn]
					return ok && !p.assigned && p.group != "" && p.group == s.route(p.label)
				},
				apply: func(s *c01pSys) {
					p := s.pods[pn]
					s.pl.Reserve(context.TODO(), nil, p.obj, "n1")
					p.assigned = true
				}},
			c01pOp{name: "unreserve(" + pn + ")",
				enabled: func(s *c01pSys) bool {
					p, ok := s.pods[pn]
					return ok && p.assigned && p.obj.Spec.NodeName == "" && p.group == s.route(p.label)
				},
				apply: func(s *c01pSys) {
					p := s.pods[pn]
					s.pl.Unreserve(context.TODO(), nil, p.obj, "n1")
					p.assigned = false
				}},
		)
	}
	ops = append(ops, c01pOp{name: "migrateDefaultQuotaGroupsPod()",
		enabled: func(s *c01pSys) bool { return s.last != "migrateDefaultQuotaGroupsPod()" },
		apply: func(s *c01pSys) {
			s.pl.migrateDefaultQuotaGroupsPod()
			for _, p := range s.pods {
				if p.group == extension.DefaultQuotaName && s.route(p.label) != extension.DefaultQuotaName {
					p.group = s.route(p.label)
				}
			}
		}})
	return ops
}

func (s *c01pSys) Apply(op int, check bool) (bool, []mc.Violation) {
	o := s.ops[op]
	if !o.enabled(s) {
		return false, nil
	}
	o.apply(s)
	s.last = o.name
	return true, nil
}

type c01pFig struct{ used, childReq, request, limited, selfReq, selfUsed c01pVec }

func (s *c01pSys) ref(g string, out map[string]*c01pFig) *c01pFig {
	f := &c01pFig{}
	for _, p := range s.pods {
		if p.group == g {
			f.selfReq = f.selfReq.add(p.req)
			if p.assigned {
				f.selfUsed = f.selfUsed.add(p.req)
			}
		}
	}
	f.used, f.childReq = f.selfUsed, f.selfReq
	for _, c := range s.children(g) {
		cf := s.ref(c, out)
		f.used = f.used.add(cf.used)
		f.childReq = f.childReq.add(cf.limited)
	}
	f.request = f.childReq
	max := c01pVec{c01pHuge * 1000, c01pHuge}
	if q, ok := s.quotas[g]; ok {
		if !q.Lend {
			f.request = f.request.max(q.Min)
		}
		max = q.Max
	}
	f.limited = f.request.min(max)
	out[g] = f
	return f
}

func (s *c01pSys) Invariants() []mc.Violation {
	var viol []mc.Violation
	after := strings.SplitN(s.last, "(", 2)[0]
	bad := func(clause, what string) {
		viol = append(viol, mc.Violation{Key: "C01|plugin|" + clause + "|after:" + after, What: what})
	}
	ref := map[string]*c01pFig{}
	s.ref(extension.RootQuotaName, ref)
	mgr := s.pl.groupQuotaManager
	sums := mgr.GetQuotaSummaries(true)
	for g, f := range ref {
		if g == extension.RootQuotaName {
			ri := mgr.GetQuotaInfoByName(g)
			if got := c01pFromRL(ri.GetUsed()); got != f.used {
				bad("used|root", fmt.Sprintf("root used %v, recomputed %v", got, f.used))
			}
			if got := c01pFromRL(ri.GetRequest()); got != f.request {
				bad("request|root", fmt.Sprintf("root request %v, recomputed %v", got, f.request))
			}
			continue
		}
		sm := sums[g]
		if sm == nil {
			bad("missing-group", "live group "+g+" is not reported")
			continue
		}
		for _, c := range []struct {
			n         string
			got, want c01pVec
		}{{"used", c01pFromRL(sm.Used), f.used}, {"request", c01pFromRL(sm.Request), f.request}, {"childRequest", c01pFromRL(sm.ChildRequest), f.childReq},
			{"selfUsed", c01pFromRL(sm.SelfUsed), f.selfUsed}, {"selfRequest", c01pFromRL(sm.SelfRequest), f.selfReq}} {
			if c.got != c.want {
				bad(c.n, fmt.Sprintf("group %s: reported %s = %v but recomputation from the objects the events established gives %v (cpu milli, memory); pods %s", g, c.n, c.got, c.want, s.podString()))
			}
			for _, x := range c.got {
				if x < 0 {
					bad("negative", fmt.Sprintf("group %s: %s = %v", g, c.n, c.got))
				}
			}
		}
		want := map[string]bool{}
		for n, p := range s.pods {
			if p.group == g {
				want[n] = p.assigned
			}
		}
		got := map[string]bool{}
		for k, pi := range sm.PodCache {
			got[strings.TrimPrefix(k, "ns/")] = pi.IsAssigned
		}
		if fmt.Sprint(want) != fmt.Sprint(got) {
			bad("membership", fmt.Sprintf("group %s: pod cache (pod->assigned) %v but the events established %v", g, got, want))
		}
	}
	for g := range sums {
		if _, ok := ref[g]; !ok {
			bad("ghost-group", "group "+g+" is reported although it was deleted")
		}
	}
	return viol
}

func (s *c01pSys) podString() string {
	var out []string
	for n, p := range s.pods {
		out = append(out, fmt.Sprintf("%s{label=%s group=%q req=%v assigned=%v node=%q}", n, p.label, p.group, p.req, p.assigned, p.obj.Spec.NodeName))
	}
	sort.Strings(out)
	return strings.Join(out, " ")
}

var c01pDumper = &mc.Dumper{SkipFields: map[string]bool{
	// monotone stamps, only compared for equality by the runtime refresh (C02); pod objects are keyed by name
	"QuotaInfo.RuntimeVersion": true, "RuntimeQuotaCalculator.globalRuntimeVersion": true, "PodInfo.pod": true,
}}

func (s *c01pSys) Key() string {
	var sb strings.Builder
	sb.WriteString(s.podString())
	for _, qn := range c01pQNames {
		if q, ok := s.quotas[qn]; ok {
			fmt.Fprintf(&sb, "%+v;", q)
		}
	}
	keys := mc.SortedKeys(s.pl.quotaToTreeMap)
	fmt.Fprintf(&sb, "|%v|%v", keys, s.last == "migrateDefaultQuotaGroupsPod()")
	return c01pDumper.Digest(s.pl.groupQuotaManager, sb.String())
}

func TestVerifC01Plugin(t *testing.T) {
	env := mc.LoadEnv()
	pods := []c01pPodDef{
		{"p1", []string{"A", "B"}, c01pVec{1000, 1}, c01pVec{3000, 1}},
		{"p2", []string{"Z", "A"}, c01pVec{3000, 0}, c01pVec{1000, 2}},
	}
	if env.Thorough() {
		pods = append(pods, c01pPodDef{"p3", []string{"B"}, c01pVec{6000, 2}, c01pVec{2000, 2}})
	}
	ops := c01pBuildOps(pods)
	res := mc.NewResult("C01", "plugin", "bfs")
	res.Rule = fmt.Sprintf("BFS over all sequences of the %d-event alphabet through the plugin's handlers (OnQuotaAdd/Update/Delete, OnPodAdd/Update/Delete with quota labels incl. a label naming a quota that does not exist yet, Reserve/Unreserve, migrateDefaultQuotaGroupsPod) on a Plugin literal with the real GroupQuotaManager", len(ops))
	res.Assumptions = []string{
		"pods are routed by the documented rule: the quota the label names if it is registered, else the default group; members of a deleted quota are tracked nowhere until their next event",
		"quota events keep the tree structurally well-formed (C15); single quota tree (MultiQuotaTree gate off, default)",
		"Reserve/Unreserve only for pods the scheduler tracks in the group its label routes to (they passed PreFilter in the same cycle)",
	}
	b := &mc.BFS{Res: res, Env: env, New: func() mc.System { return c01pNewSys(ops) }, NumOps: len(ops),
		OpName: func(i int) string { return ops[i].name }, MaxDepth: env.Pick(5, 6), Repeats: 1}
	b.Run()
	env.Emit(res)
}
