package core

// C01 schedules part: concurrent pod / scheduler / quota operations on distinct pods whose groups share
// ancestors, every interleaving up to a preemption bound under the controlled scheduler (sync shim on this
// package). Oracle at quiescence: no deadlock, no panic, and the reported figures equal the outcome of at least
// one sequential order of the same operations (which the history part checks against the statement).

import (
	"fmt"
	"sort"
	"strings"
	"testing"

	"github.com/koordinator-sh/koordinator/apis/extension"
	"github.com/koordinator-sh/koordinator/pkg/zzverif/mc"
	"github.com/koordinator-sh/koordinator/pkg/zzverif/mc/vsync"
)

type c01Step struct {
	name string
	do   func(g *GroupQuotaManager, w *c01World)
}

// c01World holds the per-execution pod objects (identity matters for old/new objects of updates).
type c01World struct {
	pod map[string]*c01Pod
	// sched is the pod object the scheduling goroutine works with (its snapshot taken when the cycle started)
	sched map[string]*c01Pod
}

type c01Prog struct {
	name  string
	setup func(g *GroupQuotaManager, w *c01World)
	steps []c01Step
}

func c01SchedQuotas() []c01QSpec {
	root := extension.RootQuotaName
	return []c01QSpec{
		{"P", root, true, false, c01Vec{8, 8}, c01Vec{4, 4}},
		{"A", "P", false, false, c01Vec{4, 4}, c01Vec{2, 2}},
		{"B", "P", false, true, c01Vec{4, 4}, c01Vec{1, 1}},
	}
}

// pod programs for pod pn living in group g (other group h)
func c01PodProgs(pn, g, h string, req c01Vec) []c01Prog {
	add := func(bound bool) func(*GroupQuotaManager, *c01World) {
		return func(m *GroupQuotaManager, w *c01World) {
			node := ""
			if bound {
				node = "n1"
			}
			obj := c01MakePod(pn, req, false, node, 1)
			w.pod[pn] = &c01Pod{group: g, req: req, obj: obj, rv: 1}
			m.OnPodAdd(g, obj)
		}
	}
	reserve := func(m *GroupQuotaManager, w *c01World) { m.ReservePod(w.pod[pn].group, w.pod[pn].obj) }
	unreserve := func(m *GroupQuotaManager, w *c01World) { m.UnreservePod(w.pod[pn].group, w.pod[pn].obj) }
	del := func(m *GroupQuotaManager, w *c01World) { m.OnPodDelete(w.pod[pn].group, w.pod[pn].obj) }
	upd := func(m *GroupQuotaManager, w *c01World) {
		p := w.pod[pn]
		obj := c01MakePod(pn, c01Vec{req[0] + 1, req[1]}, false, p.obj.Spec.NodeName, 2)
		m.OnPodUpdate(p.group, p.group, obj, p.obj)
		p.obj = obj
	}
	move := func(m *GroupQuotaManager, w *c01World) {
		p := w.pod[pn]
		obj := c01MakePod(pn, req, false, p.obj.Spec.NodeName, 3)
		m.OnPodUpdate(h, p.group, obj, p.obj)
		p.obj, p.group = obj, h
	}
	migrate := func(m *GroupQuotaManager, w *c01World) {
		p := w.pod[pn]
		m.MigratePod(p.obj, p.group, extension.DefaultQuotaName)
		p.group = extension.DefaultQuotaName
	}
	seq := func(fs ...func(*GroupQuotaManager, *c01World)) func(*GroupQuotaManager, *c01World) {
		return func(m *GroupQuotaManager, w *c01World) {
			for _, f := range fs {
				f(m, w)
			}
		}
	}
	st := func(n string, f func(*GroupQuotaManager, *c01World)) c01Step { return c01Step{pn + "." + n, f} }
	return []c01Prog{
		{name: "add", steps: []c01Step{st("add", add(false))}},
		{name: "add;reserve", steps: []c01Step{st("add", add(false)), st("reserve", reserve)}},
		{name: "addBound", steps: []c01Step{st("addBound", add(true))}},
		{name: "reserve;unreserve", setup: add(false), steps: []c01Step{st("reserve", reserve), st("unreserve", unreserve)}},
		{name: "delete(reserved)", setup: seq(add(false), reserve), steps: []c01Step{st("delete", del)}},
		{name: "updateRequest(reserved)", setup: seq(add(false), reserve), steps: []c01Step{st("updateRequest", upd)}},
		{name: "move(bound)", setup: add(true), steps: []c01Step{st("move", move)}},
		{name: "migrate(reserved);delete", setup: seq(add(false), reserve), steps: []c01Step{st("migrate", migrate), st("delete", del)}},
	}
}

// c01SamePodScens: the informer goroutine and the scheduling goroutine act on the SAME pod (p1 in A). The
// scheduler uses the pod object and quota name it saw when its cycle started.
func c01SamePodScens() [][]c01Prog {
	pn, g, h, req := "p1", "A", "B", c01Vec{1, 1}
	ip := c01PodProgs(pn, g, h, req)
	byName := map[string]c01Prog{}
	for _, p := range ip {
		byName[p.name] = p
	}
	setup := func(reserved bool) func(*GroupQuotaManager, *c01World) {
		return func(m *GroupQuotaManager, w *c01World) {
			obj := c01MakePod(pn, req, false, "", 1)
			w.pod[pn] = &c01Pod{group: g, req: req, obj: obj, rv: 1}
			w.sched[pn] = &c01Pod{group: g, req: req, obj: obj, rv: 1}
			m.OnPodAdd(g, obj)
			if reserved {
				m.ReservePod(g, obj)
			}
		}
	}
	inf := func(name string, reserved bool) c01Prog {
		var steps []c01Step
		switch name {
		case "delete":
			steps = byName["delete(reserved)"].steps
		case "updateRequest":
			steps = byName["updateRequest(reserved)"].steps
		case "move":
			steps = byName["move(bound)"].steps
		case "boundUpdate":
			steps = []c01Step{{pn + ".boundUpdate", func(m *GroupQuotaManager, w *c01World) {
				p := w.pod[pn]
				obj := c01MakePod(pn, req, false, "n1", 2)
				m.OnPodUpdate(p.group, p.group, obj, p.obj)
				p.obj = obj
			}}}
		}
		return c01Prog{name: "informer:" + name, setup: setup(reserved), steps: steps}
	}
	sres := c01Step{pn + ".sched.reserve", func(m *GroupQuotaManager, w *c01World) { m.ReservePod(w.sched[pn].group, w.sched[pn].obj) }}
	sunr := c01Step{pn + ".sched.unreserve", func(m *GroupQuotaManager, w *c01World) { m.UnreservePod(w.sched[pn].group, w.sched[pn].obj) }}
	smig := c01Step{pn + ".migrator.migrate(A->default)", func(m *GroupQuotaManager, w *c01World) {
		m.MigratePod(w.sched[pn].obj, w.sched[pn].group, extension.DefaultQuotaName)
	}}
	var out [][]c01Prog
	for _, i := range []string{"delete", "updateRequest", "boundUpdate"} {
		out = append(out,
			[]c01Prog{inf(i, false), {name: "migrator:migrate", steps: []c01Step{smig}}},
			[]c01Prog{inf(i, true), {name: "migrator:migrate", steps: []c01Step{smig}}},
		)
	}
	out = append(out,
		[]c01Prog{{name: "scheduler:reserve", setup: setup(false), steps: []c01Step{sres}}, {name: "migrator:migrate", steps: []c01Step{smig}}},
		[]c01Prog{{name: "scheduler:unreserve", setup: setup(true), steps: []c01Step{sunr}}, {name: "migrator:migrate", steps: []c01Step{smig}}},
	)
	for _, i := range []string{"delete", "updateRequest", "move", "boundUpdate"} {
		out = append(out,
			[]c01Prog{inf(i, false), {name: "scheduler:reserve", steps: []c01Step{sres}}},
			[]c01Prog{inf(i, false), {name: "scheduler:reserve;unreserve", steps: []c01Step{sres, sunr}}},
			[]c01Prog{inf(i, true), {name: "scheduler:unreserve", steps: []c01Step{sunr}}},
			[]c01Prog{inf(i, true), {name: "scheduler:unreserve;reserve", steps: []c01Step{sunr, sres}}},
		)
	}
	return out
}

func c01QuotaProgs() []c01Prog {
	root := extension.RootQuotaName
	uq := func(q c01QSpec) func(*GroupQuotaManager, *c01World) {
		return func(m *GroupQuotaManager, w *c01World) { _ = m.UpdateQuota(q.obj()) }
	}
	st := func(n string, f func(*GroupQuotaManager, *c01World)) c01Step { return c01Step{n, f} }
	return []c01Prog{
		{name: "A.max:=2", steps: []c01Step{st("updateQuota(A.max=2)", uq(c01QSpec{"A", "P", false, false, c01Vec{2, 2}, c01Vec{2, 2}}))}},
		{name: "A.reparent(root)", steps: []c01Step{st("updateQuota(A.parent=root)", uq(c01QSpec{"A", root, false, false, c01Vec{4, 4}, c01Vec{2, 2}}))}},
		{name: "B.lend:=false(reset)", steps: []c01Step{st("updateQuota(B.lend=false)", uq(c01QSpec{"B", "P", false, false, c01Vec{4, 4}, c01Vec{1, 1}}))}},
		{name: "P.min:=2", steps: []c01Step{st("updateQuota(P.min=2)", uq(c01QSpec{"P", root, true, false, c01Vec{8, 8}, c01Vec{2, 2}}))}},
		{name: "refreshRuntime(A);refreshRuntime(B)", steps: []c01Step{
			st("refreshRuntime(A)", func(m *GroupQuotaManager, w *c01World) { m.RefreshRuntime("A") }),
			st("refreshRuntime(B)", func(m *GroupQuotaManager, w *c01World) { m.RefreshRuntime("B") })}},
		{name: "summaries;nodeAdd", steps: []c01Step{
			st("summaries", func(m *GroupQuotaManager, w *c01World) { m.GetQuotaSummaries(true) }),
			st("nodeAdd", func(m *GroupQuotaManager, w *c01World) { m.OnNodeAdd(c01NodeObj("n2")) })}},
		{name: "deleteQuota(B)", steps: []c01Step{st("deleteQuota(B)", func(m *GroupQuotaManager, w *c01World) {
			_ = m.DeleteQuota(c01QSpec{"B", "P", false, true, c01Vec{4, 4}, c01Vec{1, 1}}.obj())
		})}},
		{name: "resetQuota", steps: []c01Step{st("resetQuota", func(m *GroupQuotaManager, w *c01World) { m.ResetQuota() })}},
	}
}

func c01SchedBuild(progs []c01Prog) (*GroupQuotaManager, *c01World) {
	m := c01NewGQM()
	m.OnNodeAdd(c01NodeObj("n1"))
	for _, q := range c01SchedQuotas() {
		_ = m.UpdateQuota(q.obj())
	}
	w := &c01World{pod: map[string]*c01Pod{}, sched: map[string]*c01Pod{}}
	// a bound bystander pod per leaf keeps used/request above zero so that over-subtraction is not hidden by the
	// code's clamping at zero
	m.OnPodAdd("A", c01MakePod("bystanderA", c01Vec{2, 2}, false, "n1", 1))
	m.OnPodAdd("B", c01MakePod("bystanderB", c01Vec{1, 2}, false, "n1", 1))
	for _, p := range progs {
		if p.setup != nil {
			p.setup(m, w)
		}
	}
	return m, w
}

func c01ObsString(m *GroupQuotaManager) string {
	obs, neg := c01Observe(m)
	gs := make([]string, 0, len(obs))
	for g := range obs {
		gs = append(gs, g)
	}
	sort.Strings(gs)
	var sb strings.Builder
	for _, g := range gs {
		o := obs[g]
		fmt.Fprintf(&sb, "%s{used=%v req=%v child=%v selfUsed=%v selfReq=%v pods=%v} ", g, o.used, o.request, o.childReq, o.selfUsed, o.selfReq, o.pods)
	}
	if len(neg) > 0 {
		fmt.Fprintf(&sb, "NEGATIVE%v", neg)
	}
	return sb.String()
}

// sequentialOutcomes runs every order-preserving merge of the threads' step lists on fresh managers.
func c01SequentialOutcomes(progs []c01Prog) map[string]string {
	out := map[string]string{}
	idx := make([]int, len(progs))
	var order []int
	var rec func()
	rec = func() {
		done := true
		for t := range progs {
			if idx[t] < len(progs[t].steps) {
				done = false
				idx[t]++
				order = append(order, t)
				rec()
				order = order[:len(order)-1]
				idx[t]--
			}
		}
		if done {
			m, w := c01SchedBuild(progs)
			pos := make([]int, len(progs))
			var names []string
			for _, t := range order {
				s := progs[t].steps[pos[t]]
				pos[t]++
				s.do(m, w)
				names = append(names, s.name)
			}
			out[c01ObsString(m)] = strings.Join(names, " ; ")
		}
	}
	rec()
	return out
}

func TestVerifC01Sched(t *testing.T) {
	env := mc.LoadEnv()
	res := mc.NewResult("C01", "sched", "schedules")
	podA := c01PodProgs("p1", "A", "B", c01Vec{1, 1})
	podB := c01PodProgs("p2", "B", "A", c01Vec{3, 0})
	podA2 := c01PodProgs("p3", "A", "B", c01Vec{2, 2})
	qp := c01QuotaProgs()
	type scen struct {
		progs []c01Prog
		bound int
	}
	var scens []scen
	b2 := env.Pick(2, 3)
	for _, a := range podA {
		for _, b := range podB {
			scens = append(scens, scen{[]c01Prog{a, b}, b2})
		}
		for _, q := range qp {
			scens = append(scens, scen{[]c01Prog{a, q}, b2})
		}
	}
	for _, b := range podB {
		for _, q := range qp {
			scens = append(scens, scen{[]c01Prog{b, q}, b2})
		}
	}
	for _, sp := range c01SamePodScens() {
		scens = append(scens, scen{sp, env.Pick(3, 4)})
		if env.Thorough() {
			for _, q := range qp {
				scens = append(scens, scen{[]c01Prog{sp[0], sp[1], q}, 2})
			}
		}
	}
	// two pods in the same leaf group
	for i, a := range podA {
		for j, b := range podA2 {
			if env.Thorough() || (i+j)%3 == 0 {
				scens = append(scens, scen{[]c01Prog{a, b}, b2})
			}
		}
	}
	if env.Thorough() {
		for i, a := range podA {
			for j, b := range podB {
				for k, q := range qp {
					if (i+j+k)%2 == 0 {
						scens = append(scens, scen{[]c01Prog{a, b, q}, 2})
					}
				}
			}
		}
	}
	var execs, maxExecs int64
	outcomesSeen := mc.NewDistinctSet()
	complete := true
	for si, sc := range scens {
		if !env.Mine(si) {
			continue
		}
		if env.Expired() {
			complete = false
			res.Capped = fmt.Sprintf("time budget hit at scenario %d of %d (this shard)", si, len(scens))
			break
		}
		names := make([]string, len(sc.progs))
		for i, p := range sc.progs {
			names[i] = p.name
		}
		sname := strings.Join(names, " || ")
		seq := c01SequentialOutcomes(sc.progs)
		var m *GroupQuotaManager
		var w *c01World
		ex := &vsync.Explorer{Bound: sc.bound, Expired: env.Expired, Build: func() ([]func(), func(), func(*vsync.Outcome)) {
			m, w = c01SchedBuild(sc.progs)
			threads := make([]func(), len(sc.progs))
			for i := range sc.progs {
				p := sc.progs[i]
				threads[i] = func() {
					for _, s := range p.steps {
						s.do(m, w)
					}
				}
			}
			return threads, nil, func(o *vsync.Outcome) {
				rep := map[string]any{"scenario": sname, "choices": o.Choices}
				switch {
				case o.Deadlock:
					res.Violate(mc.Violation{Key: "C01|sched|deadlock|" + sname, What: "deadlock in scenario " + sname, Replay: rep})
				case o.Livelock:
					res.Violate(mc.Violation{Key: "C01|sched|livelock|" + sname, What: "step horizon exceeded in scenario " + sname, Replay: rep})
				case o.Panic != "":
					res.Violate(mc.Violation{Key: "C01|sched|panic|" + sname, What: o.Panic, Replay: rep})
				default:
					got := c01ObsString(m)
					outcomesSeen.Add(sname + got)
					if _, ok := seq[got]; !ok {
						var alts []string
						for k, v := range seq {
							alts = append(alts, "["+v+"] => "+k)
						}
						sort.Strings(alts)
						res.Violate(mc.Violation{Key: "C01|sched|not-linearizable|" + sname,
							What:   fmt.Sprintf("scenario %s: final figures %s equal no sequential order of the same operations; sequential outcomes:\n%s", sname, got, strings.Join(alts, "\n")),
							Replay: rep})
					}
				}
			}
		}}
		if !ex.Run() {
			complete = false
			res.Capped = ex.Capped + " in scenario " + sname
		}
		execs += ex.Execs
		if ex.Execs > maxExecs {
			maxExecs = ex.Execs
		}
		res.Count("scenarios", 1)
		res.Count("sequential_orders", int64(len(seq)))
		if len(seq) > 1 {
			res.Count("scenarios_with_order_dependent_outcome", 1)
		}
		if si%17 == 0 {
			res.Sample(fmt.Sprintf("%s (bound %d): %d schedules", sname, sc.bound, ex.Execs))
		}
	}
	res.States = outcomesSeen.Len()
	res.Transitions = execs
	res.Traces = execs
	res.Evaluations = execs
	res.Distinct = outcomesSeen.Len()
	res.Exhaustive = complete
	res.MaxCounter("max_schedules_in_one_scenario", maxExecs)
	res.Bounds = map[string]any{"preemption_bound_2_threads": b2, "preemption_bound_3_threads": 2, "threads": "2 (quick) / 2-3 (thorough)", "ops_per_thread": "1-2", "scenarios_total": len(scens)}
	res.Rule = "every schedule (scheduling points at every Lock/RLock/Unlock/RUnlock of the package's mutexes) of each scenario within the preemption bound; a scenario = 2-3 threads, each a short program on its own pod or on a quota; states = distinct (scenario, final figures) outcomes; transitions/traces = complete executions of the real code"
	res.Assumptions = []string{"only lock operations are scheduling points: code between two lock operations of one thread runs atomically (unsynchronised racy accesses are not interleaved at finer grain)"}
	env.Emit(res)
}
