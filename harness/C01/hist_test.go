package core

// C01 history part: explicit-state BFS over event histories on the real GroupQuotaManager, judged after every
// event against (1) a from-the-statement reference recomputation, (2) a fresh manager fed the final objects,
// (3) sign / membership invariants. See /verif/DESIGN.md §4 C01.

import (
	"fmt"
	"sort"
	"strings"
	"testing"

	corev1 "k8s.io/api/core/v1"
	"k8s.io/apimachinery/pkg/api/resource"
	metav1 "k8s.io/apimachinery/pkg/apis/meta/v1"
	"k8s.io/apimachinery/pkg/types"

	"github.com/koordinator-sh/koordinator/apis/extension"
	"github.com/koordinator-sh/koordinator/apis/thirdparty/scheduler-plugins/pkg/apis/scheduling/v1alpha1"
	"github.com/koordinator-sh/koordinator/pkg/zzverif/mc"
)

type c01Vec [2]int64 // cpu (cores), memory (units)

func (v c01Vec) add(o c01Vec) c01Vec { return c01Vec{v[0] + o[0], v[1] + o[1]} }

// nonneg reads a min vector numerically (an undeclared dimension, written as a negative component, counts as 0)
func (v c01Vec) nonneg() c01Vec {
	for i := range v {
		if v[i] < 0 {
			v[i] = 0
		}
	}
	return v
}
func (v c01Vec) min(o c01Vec) c01Vec {
	r := v
	for i := range r {
		if o[i] < r[i] {
			r[i] = o[i]
		}
	}
	return r
}
func (v c01Vec) max(o c01Vec) c01Vec {
	r := v
	for i := range r {
		if o[i] > r[i] {
			r[i] = o[i]
		}
	}
	return r
}

func c01RL(v c01Vec) corev1.ResourceList {
	return corev1.ResourceList{
		corev1.ResourceCPU:    *resource.NewMilliQuantity(v[0]*1000, resource.DecimalSI),
		corev1.ResourceMemory: *resource.NewQuantity(v[1], resource.BinarySI),
	}
}

func c01FromRL(rl corev1.ResourceList) c01Vec {
	var v c01Vec
	if q, ok := rl[corev1.ResourceCPU]; ok {
		v[0] = q.MilliValue()
	}
	if q, ok := rl[corev1.ResourceMemory]; ok {
		v[1] = q.Value()
	}
	return v
}

func (v c01Vec) milli() c01Vec { return c01Vec{v[0] * 1000, v[1]} }

const c01Huge = int64(1) << 40

type c01QSpec struct {
	Name     string
	Parent   string
	IsParent bool
	Lend     bool
	Max, Min c01Vec
}

func (q c01QSpec) obj() *v1alpha1.ElasticQuota {
	eq := &v1alpha1.ElasticQuota{
		ObjectMeta: metav1.ObjectMeta{Name: q.Name, Namespace: "ns", Labels: map[string]string{}, Annotations: map[string]string{}},
		Spec:       v1alpha1.ElasticQuotaSpec{Max: c01RL(q.Max), Min: c01RL(q.Min)},
	}
	// a negative min component stands for "min does not declare this dimension at all" (max still does): a min that DROPS a
	// dimension is a different request from one that sets it to zero (seed C02-8)
	if q.Min[0] < 0 {
		delete(eq.Spec.Min, corev1.ResourceCPU)
	}
	if q.Min[1] < 0 {
		delete(eq.Spec.Min, corev1.ResourceMemory)
	}
	eq.Labels[extension.LabelQuotaParent] = q.Parent
	eq.Labels[extension.LabelQuotaIsParent] = fmt.Sprint(q.IsParent)
	eq.Labels[extension.LabelAllowLentResource] = fmt.Sprint(q.Lend)
	return eq
}

type c01Pod struct {
	group    string
	req      c01Vec
	assigned bool
	np       bool
	obj      *corev1.Pod // the object as last delivered by the informer / scheduler
	rv       int
}

func c01MakePod(name string, req c01Vec, np bool, node string, rv int) *corev1.Pod {
	rl := corev1.ResourceList{}
	if req[0] > 0 {
		rl[corev1.ResourceCPU] = *resource.NewMilliQuantity(req[0]*1000, resource.DecimalSI)
	}
	if req[1] > 0 {
		rl[corev1.ResourceMemory] = *resource.NewQuantity(req[1], resource.BinarySI)
	}
	p := &corev1.Pod{
		ObjectMeta: metav1.ObjectMeta{Name: name, Namespace: "ns", UID: types.UID(name), Labels: map[string]string{}, ResourceVersion: fmt.Sprint(rv)},
		Spec:       corev1.PodSpec{NodeName: node, Containers: []corev1.Container{{Name: "c", Resources: corev1.ResourceRequirements{Requests: rl}}}},
		Status:     corev1.PodStatus{Phase: corev1.PodPending},
	}
	if node != "" {
		p.Status.Phase = corev1.PodRunning
	}
	if np {
		p.Labels[extension.LabelPreemptible] = "false"
	}
	return p
}

type c01Cfg struct {
	name     string
	pods     int
	groups   []string // groups pods may be put into
	variants map[string][]c01QSpec
	qnames   []string
	raw      bool // raw alphabet: structural preconditions (parent exists, delete only childless) are not enforced
}

type c01Op struct {
	name    string
	enabled func(s *c01Sys) bool
	apply   func(s *c01Sys)
}

type c01Sys struct {
	cfg    *c01Cfg
	ops    []c01Op
	gqm    *GroupQuotaManager
	quotas map[string]c01QSpec
	pods   map[string]*c01Pod
	nodes  map[string]bool
	last   string
}

var c01PodReq = []c01Vec{{1, 1}, {3, 0}, {6, 2}}
var c01PodReqAlt = []c01Vec{{2, 1}, {5, 0}, {1, 2}}

func c01NewGQM() *GroupQuotaManager {
	return NewGroupQuotaManager("", false, c01RL(c01Vec{c01Huge, c01Huge}), c01RL(c01Vec{c01Huge, c01Huge}))
}

func c01NodeObj(name string) *corev1.Node { return c01NodeObjCap(name, c01Vec{10, 10}) }

type corev1Node = corev1.Node

func c01NodeObjCap(name string, cap c01Vec) *corev1.Node {
	return &corev1.Node{ObjectMeta: metav1.ObjectMeta{Name: name}, Status: corev1.NodeStatus{Allocatable: c01RL(cap)}}
}

func c01NewSys(cfg *c01Cfg, ops []c01Op) *c01Sys {
	return &c01Sys{cfg: cfg, ops: ops, gqm: c01NewGQM(), quotas: map[string]c01QSpec{}, pods: map[string]*c01Pod{}, nodes: map[string]bool{}}
}

func (s *c01Sys) live(g string) bool {
	if g == extension.RootQuotaName || g == extension.DefaultQuotaName || g == extension.SystemQuotaName {
		return true
	}
	_, ok := s.quotas[g]
	return ok
}

func (s *c01Sys) children(g string) []string {
	var out []string
	for n, q := range s.quotas {
		if q.Parent == g {
			out = append(out, n)
		}
	}
	if g == extension.RootQuotaName {
		out = append(out, extension.DefaultQuotaName, extension.SystemQuotaName)
	}
	sort.Strings(out)
	return out
}

func (s *c01Sys) podsIn(g string) []string {
	var out []string
	for n, p := range s.pods {
		if p.group == g {
			out = append(out, n)
		}
	}
	sort.Strings(out)
	return out
}

// dropGroup forgets the members of a group that ceased to exist: they are no longer "assigned in a group".
func (s *c01Sys) dropGroup(g string) {
	for n, p := range s.pods {
		if p.group == g {
			delete(s.pods, n)
		}
	}
}

func c01BuildOps(cfg *c01Cfg) []c01Op {
	var ops []c01Op
	// quota create/update to a variant
	for _, qn := range cfg.qnames {
		for vi, spec := range cfg.variants[qn] {
			spec := spec
			ops = append(ops, c01Op{
				name: fmt.Sprintf("quota(%s:=v%d{parent=%s,isParent=%v,lend=%v,max=%v,min=%v})", qn, vi, spec.Parent, spec.IsParent, spec.Lend, spec.Max, spec.Min),
				enabled: func(s *c01Sys) bool {
					cur, exists := s.quotas[spec.Name]
					if exists && cur == spec {
						return false
					}
					if cfg.raw {
						return true
					}
					// structural well-formedness the admission webhook guarantees (C15): the parent exists and is a parent
					if spec.Parent != extension.RootQuotaName {
						pq, ok := s.quotas[spec.Parent]
						if !ok || !pq.IsParent {
							return false
						}
					}
					// a quota that has children stays a parent
					if exists && !spec.IsParent && len(s.children(spec.Name)) > 0 {
						return false
					}
					return true
				},
				apply: func(s *c01Sys) {
					_ = s.gqm.UpdateQuota(spec.obj())
					s.quotas[spec.Name] = spec
				},
			})
		}
		qn := qn
		ops = append(ops, c01Op{
			name: fmt.Sprintf("deleteQuota(%s)", qn),
			enabled: func(s *c01Sys) bool {
				if _, ok := s.quotas[qn]; !ok {
					return false
				}
				if cfg.raw {
					return true
				}
				return len(s.children(qn)) == 0
			},
			apply: func(s *c01Sys) {
				_ = s.gqm.DeleteQuota(s.quotas[qn].obj())
				delete(s.quotas, qn)
				s.dropGroup(qn)
			},
		})
	}
	for pi := 0; pi < cfg.pods; pi++ {
		pn := fmt.Sprintf("p%d", pi+1)
		req, alt := c01PodReq[pi], c01PodReqAlt[pi]
		np := pi == 1
		for _, g := range cfg.groups {
			g := g
			for _, bound := range []bool{false, true} {
				bound := bound
				ops = append(ops, c01Op{
					name: fmt.Sprintf("podAdd(%s,%s,bound=%v)", pn, g, bound),
					enabled: func(s *c01Sys) bool {
						_, ok := s.pods[pn]
						return !ok && s.live(g)
					},
					apply: func(s *c01Sys) {
						node := ""
						if bound {
							node = "n1"
						}
						obj := c01MakePod(pn, req, np, node, 1)
						s.gqm.OnPodAdd(g, obj)
						s.pods[pn] = &c01Pod{group: g, req: req, assigned: bound, np: np, obj: obj, rv: 1}
					},
				})
			}
			// quota label change: informer update carrying another quota name
			ops = append(ops, c01Op{
				name: fmt.Sprintf("podMove(%s->%s)", pn, g),
				enabled: func(s *c01Sys) bool {
					p, ok := s.pods[pn]
					// (a quota-label change while the pod is assumed but not yet bound is not produced by the environment)
					return ok && p.group != g && s.live(g) && !(p.assigned && p.obj.Spec.NodeName == "")
				},
				apply: func(s *c01Sys) {
					p := s.pods[pn]
					p.rv++
					obj := c01MakePod(pn, p.req, np, p.obj.Spec.NodeName, p.rv)
					s.gqm.OnPodUpdate(g, p.group, obj, p.obj)
					// assigned state carries over only if the pod object is bound; an assumed-only pod arrives unassigned
					p.assigned = obj.Spec.NodeName != ""
					p.group, p.obj = g, obj
				},
			})
			// the plugin migrates pods between a group and the default group when quotas come and go
			ops = append(ops, c01Op{
				name: fmt.Sprintf("migrate(%s->%s)", pn, g),
				enabled: func(s *c01Sys) bool {
					p, ok := s.pods[pn]
					return ok && p.group != g && s.live(g) && (g == extension.DefaultQuotaName || p.group == extension.DefaultQuotaName)
				},
				apply: func(s *c01Sys) {
					p := s.pods[pn]
					s.gqm.MigratePod(p.obj, p.group, g)
					p.group = g
				},
			})
		}
		ops = append(ops,
			c01Op{name: fmt.Sprintf("podUpdateRequest(%s)", pn),
				enabled: func(s *c01Sys) bool { _, ok := s.pods[pn]; return ok },
				apply: func(s *c01Sys) {
					p := s.pods[pn]
					nr := alt
					if p.req == alt {
						nr = req
					}
					p.rv++
					obj := c01MakePod(pn, nr, np, p.obj.Spec.NodeName, p.rv)
					s.gqm.OnPodUpdate(p.group, p.group, obj, p.obj)
					p.req, p.obj = nr, obj
				}},
			c01Op{name: fmt.Sprintf("podBound(%s)", pn),
				enabled: func(s *c01Sys) bool { p, ok := s.pods[pn]; return ok && p.obj.Spec.NodeName == "" },
				apply: func(s *c01Sys) {
					p := s.pods[pn]
					p.rv++
					obj := c01MakePod(pn, p.req, np, "n1", p.rv)
					s.gqm.OnPodUpdate(p.group, p.group, obj, p.obj)
					p.obj, p.assigned = obj, true
				}},
			c01Op{name: fmt.Sprintf("podDelete(%s)", pn),
				enabled: func(s *c01Sys) bool { _, ok := s.pods[pn]; return ok },
				apply: func(s *c01Sys) {
					p := s.pods[pn]
					s.gqm.OnPodDelete(p.group, p.obj)
					delete(s.pods, pn)
				}},
			c01Op{name: fmt.Sprintf("reserve(%s)", pn),
				enabled: func(s *c01Sys) bool { p, ok := s.pods[pn]; return ok && !p.assigned },
				apply: func(s *c01Sys) {
					p := s.pods[pn]
					s.gqm.ReservePod(p.group, p.obj)
					p.assigned = true
				}},
			c01Op{name: fmt.Sprintf("unreserve(%s)", pn),
				enabled: func(s *c01Sys) bool { p, ok := s.pods[pn]; return ok && p.assigned && p.obj.Spec.NodeName == "" },
				apply: func(s *c01Sys) {
					p := s.pods[pn]
					s.gqm.UnreservePod(p.group, p.obj)
					p.assigned = false
				}},
		)
	}
	ops = append(ops,
		c01Op{name: "nodeAdd(n1)", enabled: func(s *c01Sys) bool { return !s.nodes["n1"] },
			apply: func(s *c01Sys) { s.gqm.OnNodeAdd(c01NodeObj("n1")); s.nodes["n1"] = true }},
		c01Op{name: "nodeDelete(n1)", enabled: func(s *c01Sys) bool { return s.nodes["n1"] },
			apply: func(s *c01Sys) { s.gqm.OnNodeDelete(c01NodeObj("n1")); delete(s.nodes, "n1") }},
		c01Op{name: "resetQuota()", enabled: func(s *c01Sys) bool { return s.last != "resetQuota()" && len(s.quotas) > 0 },
			apply: func(s *c01Sys) { s.gqm.ResetQuota() }},
	)
	return ops
}

func (s *c01Sys) Apply(op int, check bool) (bool, []mc.Violation) {
	o := s.ops[op]
	if !o.enabled(s) {
		return false, nil
	}
	o.apply(s)
	s.last = o.name
	return true, nil
}

// reference figures, recomputed from the surviving objects only (statement of C01)
type c01Fig struct {
	selfReq, selfUsed, used, childReq, request, limited, npReq, npUsed, selfNpReq, selfNpUsed c01Vec
}

func (s *c01Sys) refGroup(g string, out map[string]*c01Fig) *c01Fig {
	f := &c01Fig{}
	for _, pn := range s.podsIn(g) {
		p := s.pods[pn]
		r := p.req.milli()
		f.selfReq = f.selfReq.add(r)
		if p.np {
			f.selfNpReq = f.selfNpReq.add(r)
		}
		if p.assigned {
			f.selfUsed = f.selfUsed.add(r)
			if p.np {
				f.selfNpUsed = f.selfNpUsed.add(r)
			}
		}
	}
	f.used, f.childReq, f.npReq, f.npUsed = f.selfUsed, f.selfReq, f.selfNpReq, f.selfNpUsed
	for _, c := range s.children(g) {
		cf := s.refGroup(c, out)
		f.used = f.used.add(cf.used)
		f.childReq = f.childReq.add(cf.limited)
		f.npReq = f.npReq.add(cf.npReq)
		f.npUsed = f.npUsed.add(cf.npUsed)
	}
	f.request = f.childReq
	max := c01Vec{c01Huge * 1000, c01Huge}
	if q, ok := s.quotas[g]; ok {
		if !q.Lend {
			f.request = f.request.max(q.Min.nonneg().milli())
		}
		max = q.Max.milli()
	}
	f.limited = f.request.min(max)
	out[g] = f
	return f
}

func c01Viol(cfg *c01Cfg, clause, what string) mc.Violation {
	return mc.Violation{Key: "C01|hist|" + clause, What: "[" + cfg.name + "] " + what}
}

type c01Obs struct {
	used, request, childReq, selfUsed, selfReq, npUsed, npReq c01Vec
	pods                                                      map[string]bool // pod -> assigned
}

func c01Observe(gqm *GroupQuotaManager) (map[string]*c01Obs, []string) {
	out := map[string]*c01Obs{}
	var neg []string
	chk := func(g, field string, rl corev1.ResourceList) c01Vec {
		for k, q := range rl {
			if q.Sign() < 0 {
				neg = append(neg, fmt.Sprintf("%s.%s[%s]=%s", g, field, k, q.String()))
			}
		}
		return c01FromRL(rl)
	}
	for g, sm := range gqm.GetQuotaSummaries(true) {
		o := &c01Obs{pods: map[string]bool{}}
		o.used = chk(g, "used", sm.Used)
		o.request = chk(g, "request", sm.Request)
		o.childReq = chk(g, "childRequest", sm.ChildRequest)
		o.selfUsed = chk(g, "selfUsed", sm.SelfUsed)
		o.selfReq = chk(g, "selfRequest", sm.SelfRequest)
		o.npUsed = chk(g, "nonPreemptibleUsed", sm.NonPreemptibleUsed)
		o.npReq = chk(g, "nonPreemptibleRequest", sm.NonPreemptibleRequest)
		for k, pi := range sm.PodCache {
			o.pods[strings.TrimPrefix(k, "ns/")] = pi.IsAssigned
		}
		out[g] = o
	}
	root := gqm.GetQuotaInfoByName(extension.RootQuotaName)
	o := &c01Obs{pods: map[string]bool{}}
	o.used = chk("root", "used", root.GetUsed())
	o.request = chk("root", "request", root.GetRequest())
	o.npUsed = chk("root", "nonPreemptibleUsed", root.GetNonPreemptibleUsed())
	o.npReq = chk("root", "nonPreemptibleRequest", root.GetNonPreemptibleRequest())
	out[extension.RootQuotaName] = o
	return out, neg
}

func (s *c01Sys) Invariants() []mc.Violation {
	var viol []mc.Violation
	obs, neg := c01Observe(s.gqm)
	if len(neg) > 0 {
		viol = append(viol, c01Viol(s.cfg, "negative", "negative figure reported: "+strings.Join(neg, ", ")))
	}
	ref := map[string]*c01Fig{}
	s.refGroup(extension.RootQuotaName, ref)
	if s.cfg.raw {
		// orphans (parent missing) are roots of their own subtrees
		for g := range s.quotas {
			if _, ok := ref[g]; !ok {
				s.refGroup(g, ref)
			}
		}
	}
	groups := make([]string, 0, len(ref))
	for g := range ref {
		groups = append(groups, g)
	}
	sort.Strings(groups)
	for g := range obs {
		if _, ok := ref[g]; !ok {
			viol = append(viol, c01Viol(s.cfg, "ghost-group", fmt.Sprintf("group %s is reported although it was deleted", g)))
		}
	}
	for _, g := range groups {
		f, o := ref[g], obs[g]
		if o == nil {
			viol = append(viol, c01Viol(s.cfg, "missing-group", fmt.Sprintf("live group %s is not reported", g)))
			continue
		}
		cmp := func(field string, got, want c01Vec) {
			if got != want {
				role := "leaf"
				if g == extension.RootQuotaName {
					role = "root"
				} else if len(s.children(g)) > 0 {
					role = "parent"
				}
				viol = append(viol, c01Viol(s.cfg, field+"|"+role+"|after:"+strings.SplitN(s.last, "(", 2)[0],
					fmt.Sprintf("group %s: reported %s = %v but recomputation from the surviving objects gives %v (cpu milli, memory)", g, field, got, want)))
			}
		}
		cmp("used", o.used, f.used)
		cmp("request", o.request, f.request)
		cmp("nonPreemptibleUsed", o.npUsed, f.npUsed)
		cmp("nonPreemptibleRequest", o.npReq, f.npReq)
		if g != extension.RootQuotaName {
			cmp("childRequest", o.childReq, f.childReq)
			cmp("selfUsed", o.selfUsed, f.selfUsed)
			cmp("selfRequest", o.selfReq, f.selfReq)
			// membership
			want := map[string]bool{}
			for _, pn := range s.podsIn(g) {
				want[pn] = s.pods[pn].assigned
			}
			if fmt.Sprint(want) != fmt.Sprint(o.pods) {
				viol = append(viol, c01Viol(s.cfg, "membership|after:"+strings.SplitN(s.last, "(", 2)[0],
					fmt.Sprintf("group %s: pod cache (pod->assigned) %v but the events established %v", g, o.pods, want)))
			}
		}
	}
	// differential: a fresh manager fed the final objects must report the same figures
	fresh := c01NewGQM()
	if s.nodes["n1"] {
		fresh.OnNodeAdd(c01NodeObj("n1"))
	}
	done := map[string]bool{}
	for len(done) < len(s.quotas) {
		progress := false
		for _, qn := range s.cfg.qnames {
			q, ok := s.quotas[qn]
			if !ok || done[qn] {
				continue
			}
			if q.Parent == extension.RootQuotaName || done[q.Parent] || !s.live(q.Parent) {
				_ = fresh.UpdateQuota(q.obj())
				done[qn] = true
				progress = true
			}
		}
		if !progress {
			break
		}
	}
	pnames := make([]string, 0, len(s.pods))
	for pn := range s.pods {
		pnames = append(pnames, pn)
	}
	sort.Strings(pnames)
	for _, pn := range pnames {
		p := s.pods[pn]
		fresh.OnPodAdd(p.group, p.obj)
		if p.assigned && p.obj.Spec.NodeName == "" {
			fresh.ReservePod(p.group, p.obj)
		}
	}
	fobs, _ := c01Observe(fresh)
	for _, g := range groups {
		a, b := obs[g], fobs[g]
		if a == nil || b == nil {
			continue
		}
		if a.used != b.used || a.request != b.request || a.childReq != b.childReq || a.selfUsed != b.selfUsed || a.selfReq != b.selfReq ||
			a.npUsed != b.npUsed || a.npReq != b.npReq || fmt.Sprint(a.pods) != fmt.Sprint(b.pods) {
			viol = append(viol, c01Viol(s.cfg, "differs-from-fresh-rebuild|after:"+strings.SplitN(s.last, "(", 2)[0],
				fmt.Sprintf("group %s: incrementally maintained %+v vs fresh manager built from the same final objects %+v", g, *a, *b)))
		}
	}
	return viol
}

var c01Dumper = &mc.Dumper{SkipFields: map[string]bool{
	// monotone version stamps: only ever compared for equality, and only by the runtime refresh (C02); they cannot
	// influence any used/request figure.
	"QuotaInfo.RuntimeVersion": true, "RuntimeQuotaCalculator.globalRuntimeVersion": true,
	// pod objects are identified by key; their content is part of the reference state below
	"PodInfo.pod": true,
}}

func (s *c01Sys) Key() string {
	var sb strings.Builder
	for _, pn := range []string{"p1", "p2", "p3"} {
		if p, ok := s.pods[pn]; ok {
			fmt.Fprintf(&sb, "%s=%s,%v,%v,%s;", pn, p.group, p.req, p.assigned, p.obj.Spec.NodeName)
		}
	}
	for _, qn := range s.cfg.qnames {
		if q, ok := s.quotas[qn]; ok {
			fmt.Fprintf(&sb, "%+v;", q)
		}
	}
	fmt.Fprintf(&sb, "%v|%v", s.nodes["n1"], s.last == "resetQuota()")
	return c01Dumper.Digest(s.gqm, sb.String())
}

func c01Configs(env *mc.Env) []*c01Cfg {
	root := extension.RootQuotaName
	tree := map[string][]c01QSpec{
		"P": {{"P", root, true, false, c01Vec{8, 8}, c01Vec{4, 4}}, {"P", root, true, true, c01Vec{6, 6}, c01Vec{2, 2}}, {"P", "C", true, false, c01Vec{8, 8}, c01Vec{4, 4}}},
		"C": {{"C", root, true, true, c01Vec{8, 8}, c01Vec{0, 0}}},
		"A": {{"A", "P", false, false, c01Vec{4, 4}, c01Vec{2, 2}}, {"A", "P", false, true, c01Vec{2, 2}, c01Vec{0, 0}},
			{"A", "C", false, false, c01Vec{4, 4}, c01Vec{2, 2}}, {"A", root, false, true, c01Vec{4, 4}, c01Vec{0, 0}},
			// differs from v0 in min ONLY: the in-place min update (no tree rebuild), also while the pods ask for more than max (seed C01-7)
			{"A", "P", false, false, c01Vec{4, 4}, c01Vec{1, 1}}},
		"B": {{"B", "P", false, true, c01Vec{4, 4}, c01Vec{1, 1}}, {"B", "P", false, false, c01Vec{3, 3}, c01Vec{1, 1}}},
	}
	small := map[string][]c01QSpec{
		"P": {tree["P"][0]},
		"A": {tree["A"][0], tree["A"][1], tree["A"][3], tree["A"][4]},
	}
	cfgs := []*c01Cfg{
		{name: "tree-2pods", pods: 2, groups: []string{"A", "B"}, variants: tree, qnames: []string{"P", "C", "A", "B"}},
		{name: "default-migrate-2pods", pods: 2, groups: []string{"A", extension.DefaultQuotaName}, variants: small, qnames: []string{"P", "A"}},
	}
	if env.Thorough() {
		cfgs = append(cfgs,
			&c01Cfg{name: "tree-3pods-parentpods-default", pods: 3, groups: []string{"A", "B", "P", extension.DefaultQuotaName}, variants: tree, qnames: []string{"P", "C", "A", "B"}},
		)
	}
	return cfgs
}

func TestVerifC01Hist(t *testing.T) {
	env := mc.LoadEnv()
	for _, cfg := range c01Configs(env) {
		cfg := cfg
		ops := c01BuildOps(cfg)
		res := mc.NewResult("C01", "hist-"+cfg.name, "bfs")
		res.Rule = fmt.Sprintf("BFS over all event sequences of the %d-event alphabet (quota create/update to spec variants incl. re-parenting, lend/min/max changes, quota delete, pod add pending|bound, quota-label move, migrate, request update, bind, delete, reserve, unreserve, node add/delete, full reset) on the real GroupQuotaManager; states deduplicated by a deep dump of the manager + reference state", len(ops))
		res.Assumptions = []string{
			"quota events keep the tree structurally well-formed (parent exists and is a parent, a quota with children is not deleted) as the admission webhook guarantees (C15); pods are unconstrained: a quota may be deleted while the scheduler still tracks pods in it (independent informers)",
			"pod update events carry as old object the object delivered last (informer contract)",
			"all groups declare the dimensions {cpu, memory}; pods request only those",
		}
		depth := env.Pick(5, 6)
		if cfg.name == "default-migrate-2pods" {
			depth = env.Pick(5, 8)
		}
		b := &mc.BFS{Res: res, Env: env, New: func() mc.System { return c01NewSys(cfg, ops) }, NumOps: len(ops),
			OpName: func(i int) string { return ops[i].name }, MaxDepth: depth, Repeats: 1}
		b.Run()
		env.Emit(res)
	}
}
