package elasticquota

// C15 — "Admitted quota objects always form a well-formed quota tree".
//
// Explicit-state BFS (mc.BFS, replay based) over request histories create/update/delete on the REAL
// quotaTopology: fillQuotaDefaultInformation (mutating step, create only) + ValidAddQuota / ValidUpdateQuota /
// ValidDeleteQuota, exactly the calls QuotaMetaChecker.AdmitQuota / ValidateQuota make.
//
// Oracle (written from the property statement, see /verif/DESIGN.md §4 C15): the harness keeps an independent
// reference of the admitted objects (plain maps, int64), computes for every request the objects that WOULD exist
// if it were admitted and evaluates the well-formedness predicate c15WellFormed on them.
//   accepted  => the predicate holds on the resulting objects, no quota with children/pods was deleted, and the
//                webhook's record (getQuotaTopologyInfo + namespace map) is the record of exactly these objects;
//   rejected  => the recorded topology (all three maps) is identical to before.
// Stricter rejections (tree-id rules, is-parent with pods, ...) are legitimate and only counted.
// States that are already ill-formed are not expanded: every violation is reported at the request that
// introduced it (every violating history has such a first request, whose prefix is explored).

import (
	"context"
	"encoding/json"
	"fmt"
	"os"
	"reflect"
	"regexp"
	"sort"
	"strconv"
	"strings"
	"sync"
	"sync/atomic"
	"testing"
	"time"

	corev1 "k8s.io/api/core/v1"
	"k8s.io/apimachinery/pkg/api/resource"
	metav1 "k8s.io/apimachinery/pkg/apis/meta/v1"
	"sigs.k8s.io/controller-runtime/pkg/client"
	"sigs.k8s.io/controller-runtime/pkg/client/fake"

	"github.com/koordinator-sh/koordinator/apis/extension"
	"github.com/koordinator-sh/koordinator/apis/thirdparty/scheduler-plugins/pkg/apis/scheduling/v1alpha1"
	koordfeatures "github.com/koordinator-sh/koordinator/pkg/features"
	utilfeature "github.com/koordinator-sh/koordinator/pkg/util/feature"
	"github.com/koordinator-sh/koordinator/pkg/zzverif/mc"
)

const c15Root = extension.RootQuotaName

// C15_DEBUG=1 lists (as diagnostics) the distinct reasons the webhook gave for rejecting requests that would have
// kept the tree well-formed (stricter rules than the property; never a violation).
var (
	c15Debug         = os.Getenv("C15_DEBUG") != ""
	c15StrictReasons sync.Map
	c15NameRe        = regexp.MustCompile(`\b[abc]\b`)
)

// ---------------------------------------------------------------------------------------------------------
// reference model: the admitted objects, as plain values

type c15Q struct {
	Parent   string
	IsParent bool
	Tree     string
	NS       []string
	Max, Min map[string]int64
	Force    bool                   // carries allow-force-update=true: the min-sum clauses are waived for requests about it, nothing else is
	obj      *v1alpha1.ElasticQuota // the admitted API object (old object of later update/delete requests)
}

func c15RLInts(rl corev1.ResourceList) map[string]int64 {
	if len(rl) == 0 {
		return nil
	}
	m := map[string]int64{}
	for k, v := range rl {
		m[string(k)] = v.MilliValue() // exact: Value() rounds up to whole units (seed C15-6)
	}
	return m
}

// c15Parse reads the property-relevant fields of an API object straight from its labels/annotations/spec
// (no helper of the code under check is used).
func c15Parse(o *v1alpha1.ElasticQuota) *c15Q {
	q := &c15Q{Parent: o.Labels[extension.LabelQuotaParent], IsParent: o.Labels[extension.LabelQuotaIsParent] == "true",
		Tree: o.Labels[extension.LabelQuotaTreeID], Max: c15RLInts(o.Spec.Max), Min: c15RLInts(o.Spec.Min),
		Force: o.Labels[extension.LabelAllowForceUpdate] == "true"}
	if q.Parent == "" {
		q.Parent = c15Root
	}
	if s := o.Annotations[extension.AnnotationQuotaNamespaces]; s != "" {
		_ = json.Unmarshal([]byte(s), &q.NS)
	}
	return q
}

func c15Ints(m map[string]int64) string {
	ks := mc.SortedKeys(m)
	var sb strings.Builder
	for _, k := range ks {
		fmt.Fprintf(&sb, "%s=%d,", k, m[k])
	}
	return sb.String()
}

func (q *c15Q) canon() string {
	return fmt.Sprintf("p=%s ip=%v t=%s ns=%v max{%s} min{%s} f=%v", q.Parent, q.IsParent, q.Tree, q.NS, c15Ints(q.Max), c15Ints(q.Min), q.Force)
}

type c15Break struct{ Clause, Subject, Detail string }

// c15MinSumBrokenIgnoringLabels: the parents whose children's mins do not add up, allow-force-update labels ignored.
func c15MinSumBrokenIgnoringLabels(ref map[string]*c15Q, gateOn bool) map[string]bool {
	raw := map[string]*c15Q{}
	for n, q := range ref {
		c := *q
		c.Force = false
		raw[n] = &c
	}
	out := map[string]bool{}
	for _, b := range c15WellFormed(raw, gateOn) {
		if b.Clause == "children-min-sum" {
			out[b.Subject] = true
		}
	}
	return out
}

// c15WellFormed is the property's predicate on a set of quota objects; it returns every broken clause.
// gateOn = ElasticQuotaEnableUpdateResourceKey (max keys of a child only need to be included in the parent's).
func c15WellFormed(ref map[string]*c15Q, gateOn bool) []c15Break {
	var out []c15Break
	names := mc.SortedKeys(ref)
	childSum := map[string]map[string]int64{}
	nsOwners := map[string][]string{}
	for _, n := range names {
		q := ref[n]
		// min never exceeds max and is declared only for dimensions max declares
		for _, k := range mc.SortedKeys(q.Min) {
			mv, ok := q.Max[k]
			if !ok {
				out = append(out, c15Break{"min-key-not-in-max", n, k})
			} else if q.Min[k] > mv {
				out = append(out, c15Break{"min-gt-max", n, fmt.Sprintf("%s: %d > %d", k, q.Min[k], mv)})
			}
		}
		// every parent exists and is marked as a parent; resource dimensions agree along the edge
		if q.Parent != c15Root {
			p := ref[q.Parent]
			if p == nil {
				out = append(out, c15Break{"parent-missing", n, q.Parent})
			} else {
				if !p.IsParent {
					out = append(out, c15Break{"parent-not-marked-parent", n, q.Parent})
				}
				agree := true
				for k := range q.Max {
					if _, ok := p.Max[k]; !ok {
						agree = false
					}
				}
				if !gateOn {
					for k := range p.Max {
						if _, ok := q.Max[k]; !ok {
							agree = false
						}
					}
				}
				for k := range q.Min {
					if _, ok := p.Min[k]; !ok {
						out = append(out, c15Break{"min-keys-disagree", n, fmt.Sprintf("child declares min %s, parent %s{%s} does not", k, q.Parent, c15Ints(p.Min))})
						break
					}
				}
				if !agree {
					out = append(out, c15Break{"max-keys-disagree", n, fmt.Sprintf("child{%s} parent %s{%s}", c15Ints(q.Max), q.Parent, c15Ints(p.Max))})
				}
				if childSum[q.Parent] == nil {
					childSum[q.Parent] = map[string]int64{}
				}
				for k, v := range q.Min {
					childSum[q.Parent][k] += v
				}
			}
		}
		// following parent links reaches the root (within |quotas| steps)
		cur, steps := n, 0
		for cur != c15Root {
			c := ref[cur]
			if c == nil {
				break // dangling link: reported as parent-missing at the quota that has it
			}
			cur = c.Parent
			steps++
			if steps > len(ref) {
				out = append(out, c15Break{"cycle", n, "parent links do not reach the root"})
				break
			}
		}
		for _, ns := range q.NS {
			nsOwners[ns] = append(nsOwners[ns], n)
		}
	}
	// the children's mins sum to at most the (non-root) parent's min; an undeclared dimension counts as 0
	forced := map[string]bool{} // parents whose children's-sum clause is waived: the parent or one of its children carries the label
	for _, n := range names {
		if ref[n].Force {
			forced[n] = true
			forced[ref[n].Parent] = true
		}
	}
	for _, p := range mc.SortedKeys(childSum) {
		if forced[p] {
			continue
		}
		for _, k := range mc.SortedKeys(childSum[p]) {
			if childSum[p][k] > ref[p].Min[k] {
				out = append(out, c15Break{"children-min-sum", p, fmt.Sprintf("%s: children %d > parent %d", k, childSum[p][k], ref[p].Min[k])})
			}
		}
	}
	// a namespace is bound to at most one quota
	for _, ns := range mc.SortedKeys(nsOwners) {
		if len(nsOwners[ns]) > 1 {
			out = append(out, c15Break{"namespace-double-bound", ns, fmt.Sprint(nsOwners[ns])})
		}
	}
	return out
}

func c15IsDescendant(ref map[string]*c15Q, anc, n string) bool {
	cur := n
	for i := 0; i <= len(ref) && cur != c15Root; i++ {
		c := ref[cur]
		if c == nil {
			return false
		}
		cur = c.Parent
		if cur == anc {
			return true
		}
	}
	return false
}

// ---------------------------------------------------------------------------------------------------------
// alphabet

type c15Content struct {
	Tree     string
	IsParent bool
	NS       []string
	Max, Min map[string]int64
}

type c15Op struct {
	Kind  string // create | update | delete
	Name  string
	Field string // update: parent | isparent | tree | ns | max | min
	// create: all of these; update: the one named by Field
	Parent string
	C      c15Content
	label  string
	// dupOK: this create is also submitted when the name already exists. Only the plain variants (one per parent)
	// are: the webhook turns a duplicate down before it looks at the content (fill step, then "already exist"),
	// and duplicates of all 30 variants per name would be half of all executed transitions.
	dupOK bool
}

type c15Cfg struct {
	part    string
	names   []string
	parents []string // besides root
	podOn   string   // "" or the quota name a pod is labelled with
	gateOn  bool
	parentPods bool // the alpha gate SupportParentQuotaSubmitPod is on (parent quotas may hold pods): no clause of the tree is waived by it (seed C15-8)
	depth   int
	share   float64 // cap on the part's slice of the unit's time budget (1 = all that is left)
	rich    bool    // include the content-carrying create profiles
	force   bool    // the alphabet also sets / removes the allow-force-update label (it waives the min-sum clauses ONLY: seed C15-5)
	keys    bool    // the key-set alphabet: two-dimensional max, mins with zero-valued and dropped dimensions (c15BuildKeyOps)
	perms   []map[string]string
}

var (
	c15NSVals  = [][]string{nil, {"ns1"}, {"ns1", "ns2"}}
	// amounts in milli units; besides whole units two fractional ones that round up to the same whole unit (1200m and
	// 1500m: a comparison on rounded values cannot tell them apart)
	c15MaxVals = []map[string]int64{{"cpu": 4000}, {"cpu": 4000, "memory": 4000}, {"cpu": 2000}, {"cpu": 1200}}
	c15MinVals = []map[string]int64{nil, {"cpu": 1000}, {"cpu": 3000}, {"cpu": 5000}, {"memory": 1000}, {"cpu": 1500}}
)

func c15Short(p string) string {
	if p == c15Root {
		return "root"
	}
	return p
}

// c15BuildKeyOps: the alphabet of the key-set part. Every quota is created with max{cpu,memory}; mins declare one or
// both dimensions, also with the value 0 (which the children's-sum clause cannot see), and are changed one at a time, so
// that a parent can try to drop a dimension one of its children still declares and a child can try to declare one its
// parent does not ("resource dimensions agree along the tree", for min: a child's min keys are among its parent's).
var c15KeyMins = []map[string]int64{nil, {"cpu": 1000}, {"cpu": 1000, "memory": 0}, {"cpu": 3000, "memory": 2000}, {"cpu": 3000}, {"memory": 0}}

func c15BuildKeyOps(cfg c15Cfg) []c15Op {
	var ops []c15Op
	parents := append([]string{c15Root}, cfg.parents...)
	for _, n := range cfg.names {
		for _, p := range parents {
			for _, ip := range []bool{false, true} {
				ops = append(ops, c15Op{Kind: "create", Name: n, Parent: p, dupOK: !ip, C: c15Content{IsParent: ip, Max: c15MaxVals[1]},
					label: fmt.Sprintf("create %s parent=%s isParent=%v max{cpu:4,memory:4}", n, c15Short(p), ip)})
			}
		}
	}
	for _, n := range cfg.names {
		for _, m := range c15KeyMins {
			ops = append(ops, c15Op{Kind: "update", Name: n, Field: "min", C: c15Content{Min: m}, label: fmt.Sprintf("update %s min{%s}", n, c15Ints(m))})
		}
		for _, m := range c15MaxVals[:2] {
			ops = append(ops, c15Op{Kind: "update", Name: n, Field: "max", C: c15Content{Max: m}, label: fmt.Sprintf("update %s max{%s}", n, c15Ints(m))})
		}
		for _, p := range parents {
			ops = append(ops, c15Op{Kind: "update", Name: n, Field: "parent", Parent: p, label: fmt.Sprintf("update %s parent=%s", n, c15Short(p))})
		}
		ops = append(ops, c15Op{Kind: "delete", Name: n, label: "delete " + n})
	}
	return ops
}

func c15BuildOps(cfg c15Cfg) []c15Op {
	if cfg.keys {
		return c15BuildKeyOps(cfg)
	}
	var ops []c15Op
	parents := append([]string{c15Root}, cfg.parents...)
	for _, n := range cfg.names {
		for _, p := range parents {
			for _, ip := range []bool{false, true} {
				for _, tr := range []string{"", "t1"} {
					ops = append(ops, c15Op{Kind: "create", Name: n, Parent: p, dupOK: !ip && tr == "", C: c15Content{Tree: tr, IsParent: ip, Max: c15MaxVals[0]},
						label: fmt.Sprintf("create %s parent=%s isParent=%v tree=%q max{cpu:4}", n, c15Short(p), ip, tr)})
				}
			}
			if cfg.rich {
				ops = append(ops, c15Op{Kind: "create", Name: n, Parent: p, C: c15Content{IsParent: false, NS: c15NSVals[1], Max: c15MaxVals[0], Min: c15MinVals[1]},
					label: fmt.Sprintf("create %s parent=%s isParent=false ns[ns1] max{cpu:4} min{cpu:1}", n, c15Short(p))})
				ops = append(ops, c15Op{Kind: "create", Name: n, Parent: p, C: c15Content{IsParent: true, Max: c15MaxVals[1], Min: c15MinVals[2]},
					label: fmt.Sprintf("create %s parent=%s isParent=true max{cpu:4,memory:4} min{cpu:3}", n, c15Short(p))})
			}
		}
	}
	for _, n := range cfg.names {
		for _, p := range parents {
			ops = append(ops, c15Op{Kind: "update", Name: n, Field: "parent", Parent: p, label: fmt.Sprintf("update %s parent=%s", n, c15Short(p))})
		}
		for _, ip := range []bool{false, true} {
			ops = append(ops, c15Op{Kind: "update", Name: n, Field: "isparent", C: c15Content{IsParent: ip}, label: fmt.Sprintf("update %s isParent=%v", n, ip)})
		}
		for _, tr := range []string{"", "t1"} {
			ops = append(ops, c15Op{Kind: "update", Name: n, Field: "tree", C: c15Content{Tree: tr}, label: fmt.Sprintf("update %s tree=%q", n, tr)})
		}
		for _, ns := range c15NSVals {
			ops = append(ops, c15Op{Kind: "update", Name: n, Field: "ns", C: c15Content{NS: ns}, label: fmt.Sprintf("update %s ns=%v", n, ns)})
		}
		// two field groups at once: the namespaces together with a field that a LATER check may refuse (a request that
		// is rejected must not have moved the namespace bindings)
		for _, ns := range c15NSVals {
			ops = append(ops, c15Op{Kind: "update", Name: n, Field: "ns+min", C: c15Content{NS: ns, Min: c15MinVals[3]}, label: fmt.Sprintf("update %s ns=%v min{%s}", n, ns, c15Ints(c15MinVals[3]))})
			if len(cfg.parents) > 0 {
				pm := cfg.parents[len(cfg.parents)-1]
				ops = append(ops, c15Op{Kind: "update", Name: n, Field: "ns+parent", Parent: pm, C: c15Content{NS: ns}, label: fmt.Sprintf("update %s ns=%v parent=%s", n, ns, c15Short(pm))})
			}
		}
		for _, m := range c15MaxVals {
			ops = append(ops, c15Op{Kind: "update", Name: n, Field: "max", C: c15Content{Max: m}, label: fmt.Sprintf("update %s max{%s}", n, c15Ints(m))})
		}
		for _, m := range c15MinVals {
			ops = append(ops, c15Op{Kind: "update", Name: n, Field: "min", C: c15Content{Min: m}, label: fmt.Sprintf("update %s min{%s}", n, c15Ints(m))})
		}
	}
	if cfg.force {
		for _, n := range cfg.names {
			for _, f := range []bool{true, false} {
				ops = append(ops, c15Op{Kind: "update", Name: n, Field: "force", C: c15Content{IsParent: f}, label: fmt.Sprintf("update %s allow-force-update=%v", n, f)})
			}
		}
	}
	for _, n := range cfg.names {
		ops = append(ops, c15Op{Kind: "delete", Name: n, label: "delete " + n})
	}
	return ops
}

func c15RL(m map[string]int64) corev1.ResourceList {
	if m == nil {
		return nil
	}
	rl := corev1.ResourceList{}
	for k, v := range m {
		rl[corev1.ResourceName(k)] = *resource.NewMilliQuantity(v, resource.DecimalSI) // amounts are in milli units
	}
	return rl
}

func c15SetNS(o *v1alpha1.ElasticQuota, ns []string) {
	if len(ns) == 0 {
		delete(o.Annotations, extension.AnnotationQuotaNamespaces)
		return
	}
	b, _ := json.Marshal(ns)
	o.Annotations[extension.AnnotationQuotaNamespaces] = string(b)
}

func c15SetParent(o *v1alpha1.ElasticQuota, p string) {
	if p == c15Root {
		// "no parent label" is how a top-level quota is submitted; the mutating step fills in the root name
		delete(o.Labels, extension.LabelQuotaParent)
		return
	}
	o.Labels[extension.LabelQuotaParent] = p
}

func c15NewObject(op c15Op) *v1alpha1.ElasticQuota {
	o := &v1alpha1.ElasticQuota{
		TypeMeta:   metav1.TypeMeta{Kind: "ElasticQuota", APIVersion: "scheduling.sigs.k8s.io/v1alpha1"},
		ObjectMeta: metav1.ObjectMeta{Name: op.Name, Namespace: "quotas", Labels: map[string]string{}, Annotations: map[string]string{}},
	}
	c15SetParent(o, op.Parent)
	if op.C.IsParent {
		o.Labels[extension.LabelQuotaIsParent] = "true"
	} else {
		o.Labels[extension.LabelQuotaIsParent] = "false"
	}
	if op.C.Tree != "" {
		o.Labels[extension.LabelQuotaTreeID] = op.C.Tree
	}
	c15SetNS(o, op.C.NS)
	o.Spec.Max = c15RL(op.C.Max)
	o.Spec.Min = c15RL(op.C.Min)
	return o
}

func c15Modify(o *v1alpha1.ElasticQuota, op c15Op) {
	switch op.Field {
	case "parent":
		if op.Parent == c15Root {
			o.Labels[extension.LabelQuotaParent] = c15Root
		} else {
			o.Labels[extension.LabelQuotaParent] = op.Parent
		}
	case "force":
		if op.C.IsParent { // (the content's boolean is reused as the label's value)
			o.Labels[extension.LabelAllowForceUpdate] = "true"
		} else {
			delete(o.Labels, extension.LabelAllowForceUpdate)
		}
	case "isparent":
		if op.C.IsParent {
			o.Labels[extension.LabelQuotaIsParent] = "true"
		} else {
			o.Labels[extension.LabelQuotaIsParent] = "false"
		}
	case "tree":
		if op.C.Tree == "" {
			delete(o.Labels, extension.LabelQuotaTreeID)
		} else {
			o.Labels[extension.LabelQuotaTreeID] = op.C.Tree
		}
	case "ns":
		c15SetNS(o, op.C.NS)
	case "ns+min":
		c15SetNS(o, op.C.NS)
		o.Spec.Min = c15RL(op.C.Min)
	case "ns+parent":
		c15SetNS(o, op.C.NS)
		o.Labels[extension.LabelQuotaParent] = op.Parent
	case "max":
		o.Spec.Max = c15RL(op.C.Max)
	case "min":
		o.Spec.Min = c15RL(op.C.Min)
	}
}

// ---------------------------------------------------------------------------------------------------------
// the system: real quotaTopology + reference

// c15Counters are lock-free vacuity counters (mc.Result.Count takes a mutex, which serialises 16 workers on this
// hot path); they are flushed into the Result when the part is done.
type c15Counters struct{ m sync.Map }

func (c *c15Counters) Count(name string, n int64) {
	v, ok := c.m.Load(name)
	if !ok {
		v, _ = c.m.LoadOrStore(name, new(atomic.Int64))
	}
	v.(*atomic.Int64).Add(n)
}

func (c *c15Counters) flush(res *mc.Result) {
	c.m.Range(func(k, v any) bool {
		res.Count(k.(string), v.(*atomic.Int64).Load())
		return true
	})
}

type c15Sys struct {
	cfg *c15Cfg
	ops []c15Op
	res *c15Counters
	qt  *quotaTopology
	ref map[string]*c15Q
}

func c15PodClient(podOn string) client.Client {
	cl := fake.NewClientBuilder().WithIndex(&corev1.Pod{}, "label.quotaName", func(object client.Object) []string {
		return []string{object.(*corev1.Pod).Labels[extension.LabelQuotaName]}
	}).Build()
	_ = v1alpha1.AddToScheme(cl.Scheme())
	if podOn != "" {
		// a running pod labelled with the quota, in a namespace that no quota of the universe binds or is named after
		pod := &corev1.Pod{ObjectMeta: metav1.ObjectMeta{Namespace: "podns", Name: "pod1", Labels: map[string]string{extension.LabelQuotaName: podOn}}}
		if err := cl.Create(context.TODO(), pod); err != nil {
			panic(err)
		}
	}
	return cl
}

// c15RLString renders a resource list canonically (sorted keys, exact milli values). A nil and an empty list
// render the same: they are indistinguishable in getQuotaTopologyInfo() and to every check.
func c15RLString(sb *strings.Builder, rl corev1.ResourceList) {
	ks := make([]string, 0, len(rl))
	for k := range rl {
		ks = append(ks, string(k))
	}
	sort.Strings(ks)
	sb.WriteString("{")
	for _, k := range ks {
		q := rl[corev1.ResourceName(k)]
		sb.WriteString(k)
		sb.WriteString("=")
		sb.WriteString(strconv.FormatInt(q.MilliValue(), 10))
		sb.WriteString("m,")
	}
	sb.WriteString("}")
}

// c15Rn renames a quota name under a permutation of the name universe (nil = identity; root, "missing" and
// anything outside the universe are fixed points).
func c15Rn(rn map[string]string, n string) string {
	if rn != nil {
		if v, ok := rn[n]; ok {
			return v
		}
	}
	return n
}

func c15SortedRenamed[V any](m map[string]V, rn map[string]string) [][2]string {
	out := make([][2]string, 0, len(m))
	for k := range m {
		out = append(out, [2]string{c15Rn(rn, k), k})
	}
	sort.Slice(out, func(i, j int) bool { return out[i][0] < out[j][0] })
	return out
}

// fingerprint renders the complete recorded topology (every field of every QuotaInfo, the children sets and the
// namespace map) deterministically, with the quota names renamed by rn. c15GuardShape makes the harness fail
// loudly if QuotaInfo grows a field this rendering does not know (then the rendering has to be extended;
// mc.Dumper was too slow for this hot path). A nil and an empty children set render the same (same reason as
// for resource lists); a children-set KEY that appears or disappears is a difference.
func (s *c15Sys) fingerprint(rn map[string]string) string {
	qt := s.qt
	qt.lock.RLock()
	defer qt.lock.RUnlock()
	var sb strings.Builder
	sb.Grow(512)
	for _, e := range c15SortedRenamed(qt.quotaInfoMap, rn) {
		qi := qt.quotaInfoMap[e[1]]
		sb.WriteString(e[0])
		if qi == nil {
			sb.WriteString(":nil;")
			continue
		}
		sb.WriteString(":[")
		sb.WriteString(c15Rn(rn, qi.Name))
		sb.WriteString("|p=")
		sb.WriteString(c15Rn(rn, qi.ParentName))
		sb.WriteString("|t=")
		sb.WriteString(qi.TreeID)
		sb.WriteString("|")
		sb.WriteString(strconv.FormatBool(qi.IsParent))
		sb.WriteString(strconv.FormatBool(qi.AllowLentResource))
		sb.WriteString(strconv.FormatBool(qi.AllowForceUpdate))
		sb.WriteString(strconv.FormatBool(qi.IsTreeRoot))
		sb.WriteString("|max")
		c15RLString(&sb, qi.CalculateInfo.Max)
		sb.WriteString("min")
		c15RLString(&sb, qi.CalculateInfo.Min)
		sb.WriteString("g")
		c15RLString(&sb, qi.CalculateInfo.Guaranteed)
		sb.WriteString("a")
		c15RLString(&sb, qi.CalculateInfo.Allocated)
		sb.WriteString("];")
	}
	sb.WriteString(" H:")
	for _, e := range c15SortedRenamed(qt.quotaHierarchyInfo, rn) {
		ch := qt.quotaHierarchyInfo[e[1]]
		sb.WriteString(c15Short(e[0]))
		sb.WriteString("=(")
		for _, c := range c15SortedRenamed(ch, rn) {
			sb.WriteString(c[0])
			sb.WriteString(",")
		}
		sb.WriteString(");")
	}
	sb.WriteString(" N:")
	for _, n := range mc.SortedKeys(qt.namespaceToQuotaMap) {
		sb.WriteString(n)
		sb.WriteString("->")
		sb.WriteString(c15Rn(rn, qt.namespaceToQuotaMap[n]))
		sb.WriteString(";")
	}
	return sb.String()
}

func c15GuardShape(t *testing.T) {
	if n := reflect.TypeOf(QuotaInfo{}).NumField(); n != 8 {
		t.Fatalf("C15 harness: QuotaInfo has %d fields, the fingerprint renders 8 - extend c15Sys.fingerprint", n)
	}
	if n := reflect.TypeOf(QuotaCalculateInfo{}).NumField(); n != 4 {
		t.Fatalf("C15 harness: QuotaCalculateInfo has %d fields, the fingerprint renders 4 - extend c15Sys.fingerprint", n)
	}
	if n := reflect.TypeOf(quotaTopology{}).NumField(); n != 5 {
		t.Fatalf("C15 harness: quotaTopology has %d fields, the fingerprint knows lock + 3 maps + client - extend c15Sys.fingerprint", n)
	}
}

// c15Rec is the webhook's record in plain values.
type c15Rec struct {
	Quotas   map[string]string   // name -> "p=.. ip=.. max{..} min{..}"
	Children map[string][]string // sorted
	NS       map[string]string
}

func c15RecQ(parent string, isParent bool, max, min corev1.ResourceList) string {
	return "p=" + parent + " ip=" + strconv.FormatBool(isParent) + " max{" + c15Ints(c15RLInts(max)) + "} min{" + c15Ints(c15RLInts(min)) + "}"
}

// readRecord reads the record. official=true goes through getQuotaTopologyInfo() (the observation point the
// property names) for quotas and children; official=false reads the same maps directly (cheap; used only to
// decide whether a state is expanded, never to judge).
func (s *c15Sys) readRecord(official bool) c15Rec {
	r := c15Rec{Quotas: map[string]string{}, Children: map[string][]string{}, NS: map[string]string{}}
	if official {
		sum := s.qt.getQuotaTopologyInfo()
		for n, q := range sum.QuotaInfoMap {
			r.Quotas[n] = c15RecQ(q.ParentName, q.IsParent, q.Max, q.Min)
		}
		for n, ch := range sum.QuotaHierarchyInfo {
			c := append([]string{}, ch...)
			sort.Strings(c)
			r.Children[n] = c
		}
	}
	s.qt.lock.RLock()
	defer s.qt.lock.RUnlock()
	if !official {
		for n, q := range s.qt.quotaInfoMap {
			r.Quotas[n] = c15RecQ(q.ParentName, q.IsParent, q.CalculateInfo.Max, q.CalculateInfo.Min)
		}
		for n, ch := range s.qt.quotaHierarchyInfo {
			r.Children[n] = mc.SortedKeys(ch)
		}
	}
	for ns, q := range s.qt.namespaceToQuotaMap {
		r.NS[ns] = q
	}
	return r
}

// recordDiff compares the webhook's record with the admitted objects; "" when it is their exact record.
// extraNS reports stale namespace bindings (they only make the webhook stricter; diagnostic, not a violation).
func (s *c15Sys) recordDiff(official bool) (clause, what string, extraNS int) {
	rec := s.readRecord(official)
	names := mc.SortedKeys(s.ref)
	for _, n := range names {
		q := s.ref[n]
		got, ok := rec.Quotas[n]
		if !ok {
			return "record-differs", fmt.Sprintf("admitted quota %s is not recorded", n), 0
		}
		want := "p=" + q.Parent + " ip=" + strconv.FormatBool(q.IsParent) + " max{" + c15Ints(q.Max) + "} min{" + c15Ints(q.Min) + "}"
		if got != want {
			return "record-differs", fmt.Sprintf("quota %s recorded as [%s], admitted object is [%s]", n, got, want), 0
		}
	}
	if len(rec.Quotas) != len(s.ref) {
		for _, n := range mc.SortedKeys(rec.Quotas) {
			if s.ref[n] == nil {
				return "record-differs", fmt.Sprintf("recorded quota %s is not an admitted object", n), 0
			}
		}
	}
	// children lists = inverse of the parent links (an absent list counts as empty)
	want := map[string][]string{}
	for _, n := range names {
		want[s.ref[n].Parent] = append(want[s.ref[n].Parent], n)
	}
	for k, w := range want {
		if !c15SameStrings(rec.Children[k], w) {
			return "hierarchy-not-inverse-of-parents", fmt.Sprintf("recorded children of %s = %v, quotas whose parent is %s = %v", c15Short(k), rec.Children[k], c15Short(k), w), 0
		}
	}
	for _, k := range mc.SortedKeys(rec.Children) {
		if _, ok := want[k]; !ok && len(rec.Children[k]) > 0 {
			return "hierarchy-not-inverse-of-parents", fmt.Sprintf("recorded children of %s = %v, but no quota has parent %s", c15Short(k), rec.Children[k], c15Short(k)), 0
		}
	}
	bound := 0
	for _, n := range names {
		for _, ns := range s.ref[n].NS {
			bound++
			if rec.NS[ns] != n {
				return "namespace-binding-lost", fmt.Sprintf("namespace %s of admitted quota %s is recorded as bound to %q", ns, n, rec.NS[ns]), 0
			}
		}
	}
	// (the admitted objects are well-formed here, so their bindings are pairwise distinct)
	if len(rec.NS) > bound {
		extraNS = len(rec.NS) - bound
	}
	return "", "", extraNS
}

func c15SameStrings(a, b []string) bool {
	if len(a) != len(b) {
		return false
	}
	for i := range a {
		if a[i] != b[i] {
			return false
		}
	}
	return true
}

func c15Copy(ref map[string]*c15Q) map[string]*c15Q {
	out := make(map[string]*c15Q, len(ref)+1)
	for k, v := range ref {
		out[k] = v
	}
	return out
}

func (s *c15Sys) Apply(opi int, check bool) (bool, []mc.Violation) {
	op := s.ops[opi]
	cur := s.ref[op.Name]
	// the API server answers 404 for update/delete of an object it does not have; admission is not called
	if op.Kind != "create" && cur == nil {
		return false, nil
	}
	if op.Kind == "create" && cur != nil && !op.dupOK {
		return false, nil // alphabet restriction, see c15Op.dupOK
	}
	if check {
		// do not expand states that are already ill-formed: a violation is reported where it is introduced
		if len(c15WellFormed(s.ref, s.cfg.gateOn)) > 0 {
			return false, nil
		}
		if cl, _, _ := s.recordDiff(false); cl != "" {
			return false, nil
		}
	}
	var before string
	if check {
		before = s.fingerprint(nil)
	}
	var err error
	var submitted *v1alpha1.ElasticQuota
	var asSubmitted *c15Q // the request's object as the client sent it (nil for delete / duplicate create)
	opclass := op.Kind
	var transition []c15Break
	switch op.Kind {
	case "create":
		o := c15NewObject(op)
		if cur != nil {
			// create of an existing name passes admission before storage refuses it: the webhook sees it, the API
			// server never persists it, so the admitted objects do not change whatever the webhook answers
			opclass = "create-existing"
		} else if check {
			asSubmitted = c15Parse(o)
		}
		// mutating webhook (AdmitQuota), then validating webhook (ValidateQuota)
		if err = s.qt.fillQuotaDefaultInformation(o); err == nil {
			err = s.qt.ValidAddQuota(o)
		}
		submitted = o
	case "update":
		opclass = "update-" + op.Field
		o := cur.obj.DeepCopy()
		c15Modify(o, op)
		if check {
			asSubmitted = c15Parse(o)
		}
		// cur.obj is handed over as the old object without a copy: ValidUpdateQuota only reads it
		err = s.qt.ValidUpdateQuota(cur.obj, o)
		submitted = o
	case "delete":
		if check {
			for _, n := range mc.SortedKeys(s.ref) {
				if n != op.Name && s.ref[n].Parent == op.Name {
					transition = append(transition, c15Break{"delete-with-children", op.Name, "child " + n})
					break
				}
			}
			if s.cfg.podOn == op.Name {
				transition = append(transition, c15Break{"delete-with-pods", op.Name, "pod podns/pod1"})
			}
		}
		err = s.qt.ValidDeleteQuota(cur.obj)
	}
	accepted := err == nil
	if accepted && opclass != "create-existing" {
		if op.Kind == "delete" {
			delete(s.ref, op.Name)
		} else {
			q := c15Parse(submitted) // the admitted object = the request after the mutating step
			q.obj = submitted
			s.ref[op.Name] = q
		}
	}
	if !check {
		return true, nil
	}
	// ---- oracle ----
	var viol []mc.Violation
	breaks := transition
	if accepted {
		if op.Kind != "delete" {
			breaks = c15WellFormed(s.ref, s.cfg.gateOn) // the pre-state was well-formed: everything broken is new
			if s.cfg.force {
				// ... up to the waiver: a sibling set whose mins already failed to add up before the request (admitted under
				// the allow-force-update label, by design) is not broken BY this request, e.g. by taking the label off again
				// (a false alarm of the first version of this part, thorough tier)
				pre := c15Copy(s.ref)
				if cur != nil {
					pre[op.Name] = cur
				} else {
					delete(pre, op.Name)
				}
				inherited := c15MinSumBrokenIgnoringLabels(pre, s.cfg.gateOn)
				kept := breaks[:0:0]
				for _, b := range breaks {
					if b.Clause == "children-min-sum" && inherited[b.Subject] {
						s.res.Count("min_sum_break_inherited_from_a_forced_state(not judged)", 1)
						continue
					}
					kept = append(kept, b)
				}
				breaks = kept
			}
		}
		s.res.Count("accepted_"+op.Kind, 1)
		if op.Kind == "update" && s.ref[op.Name].canon() == cur.canon() {
			s.res.Count("accepted_update_noop", 1)
		}
		seen := map[string]bool{}
		for _, b := range breaks {
			key := "C15|" + b.Clause + "|" + opclass
			if b.Clause == "cycle" && op.Kind == "update" && op.Field == "parent" {
				pre := c15Copy(s.ref)
				pre[op.Name] = cur
				if op.Parent == op.Name {
					key = "C15|cycle|self-parent"
				} else if c15IsDescendant(pre, op.Name, op.Parent) {
					key = "C15|cycle|update-parent-to-descendant"
				}
			}
			if seen[key] {
				continue
			}
			seen[key] = true
			viol = append(viol, mc.Violation{Key: key, What: fmt.Sprintf("request [%s] was ACCEPTED although the resulting quotas are not a well-formed tree: clause %s broken at %s (%s); quotas after the request: %s",
				op.label, b.Clause, c15Short(b.Subject), b.Detail, c15RefString(s.ref))})
		}
		if len(breaks) == 0 {
			s.res.Count("accepted_wellformed", 1)
		}
		if cl, what, extra := s.recordDiff(true); cl != "" {
			viol = append(viol, mc.Violation{Key: "C15|" + cl + "|" + opclass, What: fmt.Sprintf("after the accepted request [%s] the webhook's record is not the record of the admitted objects: %s; admitted: %s", op.label, what, c15RefString(s.ref))})
		} else {
			s.res.Count("accepted_record_is_exact", 1)
			if extra > 0 {
				s.res.Count("diag_stale_namespace_binding_after_accept", 1)
			}
		}
	} else {
		if asSubmitted != nil {
			hyp := c15Copy(s.ref) // the objects that would exist had the request been admitted
			hyp[op.Name] = asSubmitted
			breaks = c15WellFormed(hyp, s.cfg.gateOn)
		}
		s.res.Count("rejected_"+op.Kind, 1)
		if len(breaks) == 0 {
			// stricter than the property demands (tree-id rules, is-parent with pods, duplicate create, ...): legitimate
			s.res.Count("rejected_although_wellformed(stricter rule, legit)", 1)
			s.res.Count("rejected_although_wellformed:"+opclass, 1)
			if c15Debug {
				c15StrictReasons.LoadOrStore(opclass+": "+c15NameRe.ReplaceAllString(err.Error(), "Q"), op.label)
			}
		}
		for _, b := range breaks {
			s.res.Count("rejected_would_break:"+b.Clause, 1)
		}
		if after := s.fingerprint(nil); after != before {
			viol = append(viol, mc.Violation{Key: "C15|rejected-but-record-changed|" + opclass, What: fmt.Sprintf("request [%s] was REJECTED (%v) but the recorded topology changed:\n before: %s\n after:  %s", op.label, err, before, after)})
		} else {
			s.res.Count("rejected_record_unchanged", 1)
		}
	}
	return true, viol
}

func c15RefString(ref map[string]*c15Q) string { return c15RefStringRn(ref, nil) }

func c15RefStringRn(ref map[string]*c15Q, rn map[string]string) string {
	var sb strings.Builder
	for _, e := range c15SortedRenamed(ref, rn) {
		q := ref[e[1]]
		sb.WriteString(e[0])
		sb.WriteString("{p=")
		sb.WriteString(c15Short(c15Rn(rn, q.Parent)))
		sb.WriteString(" ip=")
		sb.WriteString(strconv.FormatBool(q.IsParent))
		sb.WriteString(" t=")
		sb.WriteString(q.Tree)
		sb.WriteString(" ns=[")
		sb.WriteString(strings.Join(q.NS, ","))
		sb.WriteString("] max{")
		sb.WriteString(c15Ints(q.Max))
		sb.WriteString("} min{")
		sb.WriteString(c15Ints(q.Min))
		if q.Force {
			sb.WriteString("} force")
		}
		sb.WriteString("}} ")
	}
	return sb.String()
}

func (s *c15Sys) Invariants() []mc.Violation { return nil }

// Key: the admitted objects (they are the old objects of future requests) + everything the webhook recorded,
// canonicalised under the permutations of the quota names that the part's environment is symmetric under (all
// names have the same requests in the alphabet, the code treats names opaquely, the pod's quota is a fixed point):
// the lexicographically least rendering over the group. Symmetric states have symmetric futures, so exploring one
// representative per orbit loses nothing.
func (s *c15Sys) Key() string {
	best := ""
	for i, rn := range s.cfg.perms {
		k := c15RefStringRn(s.ref, rn) + "#" + s.fingerprint(rn)
		if i == 0 || k < best {
			best = k
		}
	}
	return best
}

// c15Perms returns the permutations (as rename maps) of names that fix `fixed`.
func c15Perms(names []string, fixed string) []map[string]string {
	var out []map[string]string
	mc.Permutations(len(names), func(p []int) {
		rn := map[string]string{}
		for i, j := range p {
			rn[names[i]] = names[j]
		}
		if fixed != "" && rn[fixed] != fixed {
			return
		}
		out = append(out, rn)
	})
	return out
}

// ---------------------------------------------------------------------------------------------------------

func c15Configs(env *mc.Env) []c15Cfg {
	abc := []string{"a", "b", "c"}
	ab := []string{"a", "b"}
	// The cheap parts run first with a capped share; the main part runs last and gets whatever budget is left.
	if env.Thorough() {
		return []c15Cfg{
			{part: "hist-keys", names: abc, parents: []string{"a", "b", "c"}, depth: 7, share: 0.15, keys: true},
			{part: "hist-force", names: abc, parents: []string{"a", "b", "c", "missing"}, depth: 7, share: 0.25, force: true, rich: true},
			{part: "hist-pod-on-a", names: ab, parents: []string{"a", "b", "missing"}, podOn: "a", depth: 8, share: 0.2, rich: true},
			{part: "hist-gate-updatekey", names: abc, parents: []string{"a", "b", "c", "missing"}, gateOn: true, depth: 7, share: 0.3, rich: true},
			{part: "hist-gate-parentpods", names: ab, parents: []string{"a", "b", "missing"}, podOn: "a", parentPods: true, depth: 7, share: 0.35, rich: true},
			{part: "hist-3names", names: abc, parents: []string{"a", "b", "c", "missing"}, depth: 7, share: 1, rich: true},
		}
	}
	return []c15Cfg{
		{part: "hist-keys", names: ab, parents: []string{"a", "b"}, depth: 6, share: 0.2, keys: true},
		{part: "hist-force", names: abc, parents: []string{"a", "b", "c", "missing"}, depth: 5, share: 0.35, force: true},
		{part: "hist-pod-on-a", names: ab, parents: []string{"a", "b", "missing"}, podOn: "a", depth: 5, share: 0.3, rich: true},
		{part: "hist-gate-updatekey", names: ab, parents: []string{"a", "b", "missing"}, gateOn: true, depth: 5, share: 0.25, rich: true},
		{part: "hist-gate-parentpods", names: ab, parents: []string{"a", "b", "missing"}, podOn: "a", parentPods: true, depth: 5, share: 0.3, rich: true},
		{part: "hist-3names", names: abc, parents: []string{"a", "b", "c", "missing"}, depth: 5, share: 1, rich: true},
	}
}

func TestVerifC15Hist(t *testing.T) {
	env := mc.LoadEnv()
	c15GuardShape(t)
	only := os.Getenv("VERIF_ONLY")
	var replay struct {
		Ops []string `json:"ops"`
	}
	replayPart, isReplay := env.ReplayData(&replay)
	total := env.Budget
	// VERIF_ONLY selects parts when it matches a part name (it is also used by bin/check to select the unit)
	var onlyRe *regexp.Regexp
	if only != "" {
		if re, err := regexp.Compile(only); err == nil {
			for _, cfg := range c15Configs(env) {
				if re.MatchString(cfg.part) {
					onlyRe = re
				}
			}
		}
	}
	for _, cfg := range c15Configs(env) {
		cfg := cfg
		if isReplay && replayPart != cfg.part {
			continue
		}
		if !isReplay && onlyRe != nil && !onlyRe.MatchString(cfg.part) {
			continue
		}
		if err := utilfeature.DefaultMutableFeatureGate.Set(fmt.Sprintf("%s=%v", koordfeatures.ElasticQuotaEnableUpdateResourceKey, cfg.gateOn)); err != nil {
			t.Fatal(err)
		}
		if err := utilfeature.DefaultMutableFeatureGate.Set(fmt.Sprintf("%s=%v", koordfeatures.SupportParentQuotaSubmitPod, cfg.parentPods)); err != nil {
			t.Fatal(err)
		}
		if utilfeature.DefaultFeatureGate.Enabled(koordfeatures.ElasticQuotaGuaranteeUsage) {
			t.Fatal("C15 harness assumes the ElasticQuotaGuaranteeUsage gate at its default (off)")
		}
		ops := c15BuildOps(cfg)
		cfg.perms = c15Perms(cfg.names, cfg.podOn)
		// The code under check only Lists pods, so clients are read-only and can be shared between instances; the
		// fake client takes a write lock per List, hence a ring of identical clients instead of one (contention).
		clients := make([]client.Client, 64)
		for i := range clients {
			clients[i] = c15PodClient(cfg.podOn)
		}
		var clientSeq atomic.Uint64
		res := mc.NewResult("C15", cfg.part, "bfs")
		cnt := &c15Counters{}
		res.Rule = fmt.Sprintf("every sequence (modulo state equivalence) of create/update/delete requests over names %v, parents {root,%s}, is-parent {f,t}, tree id {\"\",t1}, namespaces {[],[ns1],[ns1,ns2]}, max %v, min %v; %d request kinds; update = one field of the stored object changed; create of an existing name only in the plain variant per parent; pod labelled with quota %q; gate ElasticQuotaEnableUpdateResourceKey=%v; a state is (admitted objects, recorded topology); ill-formed states are not expanded",
			cfg.names, strings.Join(cfg.parents, ","), c15MaxVals, c15MinVals, len(ops), cfg.podOn, cfg.gateOn)
		res.Assumptions = []string{
			"every request the webhook accepts is persisted by the API server and every rejected one is not; update/delete of a non-existent quota never reach admission (404), create of an existing name does and is never persisted",
			"one webhook replica; the informer echo (OnQuotaAdd/Update/Delete) of an admitted write arrives later than the next request and is not modelled",
			"escape hatches: the allow-force-update label is in the alphabet of part hist-force and waives ONLY the children-min-sum clause of the sibling sets it touches (every structural clause stays demanded of a labelled quota); the is-root (tree root) label is outside the alphabet; ElasticQuotaGuaranteeUsage gate off (default)",
			"an update request changes one field group (parent | is-parent | tree id | namespaces | max | min) of the stored object, or the namespaces together with min / with the parent",
			"the pod set is fixed per part; the pod is labelled with the quota name and lives in a namespace no quota binds ('quota with pods' = pods carrying the quota's name label, which is what a pod of a leaf quota looks like)",
		}
		res.Bounds = map[string]any{"names": cfg.names, "max_depth": cfg.depth, "symmetry": fmt.Sprintf("states are orbits under the %d permutations of the quota names that fix the pod's quota", len(cfg.perms))}
		b := &mc.BFS{Res: res, Env: env, NumOps: len(ops), OpName: func(i int) string { return ops[i].label }, MaxDepth: cfg.depth, Repeats: env.Pick(1, 2),
			New: func() mc.System {
				return &c15Sys{cfg: &cfg, ops: ops, res: cnt, qt: NewQuotaTopology(clients[clientSeq.Add(1)%uint64(len(clients))]), ref: map[string]*c15Q{}}
			}}
		if isReplay {
			idx := make([]uint8, 0, len(replay.Ops))
			for _, name := range replay.Ops {
				found := -1
				for i := range ops {
					if ops[i].label == name {
						found = i
					}
				}
				if found < 0 {
					t.Fatalf("replay: unknown op %q", name)
				}
				idx = append(idx, uint8(found))
			}
			viol, key := b.ReplayOps(idx)
			fmt.Printf("REPLAY part=%s ops=%q\n final state: %s\n", cfg.part, replay.Ops, key)
			for _, v := range viol {
				fmt.Printf(" VIOLATION %s\n  %s\n", v.Key, v.What)
				res.Violate(v)
			}
			if len(viol) == 0 {
				fmt.Println(" verdict: no violation")
			}
			env.Emit(res)
			return
		}
		// per-part slice of the unit's wall-clock budget
		env.Budget = env.Elapsed() + time.Duration(float64(total)*cfg.share)
		if env.Budget > total {
			env.Budget = total
		}
		start := env.Elapsed()
		b.Run()
		cnt.flush(res)
		if c15Debug {
			c15StrictReasons.Range(func(k, v any) bool {
				fmt.Printf("STRICT-REJECT %s   e.g. [%s]\n", k, v)
				return true
			})
			c15StrictReasons = sync.Map{}
		}
		res.WallS = (env.Elapsed() - start).Seconds()
		env.Emit(res)
	}
}
