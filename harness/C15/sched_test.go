package elasticquota

// C15 schedules part: two admission requests are served concurrently (the webhook server handles requests on
// goroutines of its own) by the real quotaTopology under the controlled scheduler (sync shim on this package: every
// Lock / RLock / Unlock / RUnlock of the topology's lock is a scheduling point). The requests of a scenario are chosen
// so that admitting BOTH leaves an ill-formed tree although each alone is fine (delete of a parent vs a child arriving
// under it, a cycle closed from both ends, a min sum exceeded from both sides, one namespace bound twice ...): every
// schedule must end with a well-formed set of admitted objects and a record that agrees with it (seed C15-7: the delete
// dropped the lock between its no-children check and the removal).

import (
	"fmt"
	"sort"
	"strings"
	"sync"
	"testing"

	"github.com/koordinator-sh/koordinator/apis/thirdparty/scheduler-plugins/pkg/apis/scheduling/v1alpha1"
	"github.com/koordinator-sh/koordinator/pkg/zzverif/mc"
	"github.com/koordinator-sh/koordinator/pkg/zzverif/mc/vsync"
)

type c15Scen struct {
	name    string
	setup   []c15Op
	threads [][]c15Op
}

type c15World struct {
	mu  sync.Mutex // (real mutex, never held across a call into the code under test: only keeps the free-running race pass from corrupting the bookkeeping maps)
	qt  *quotaTopology
	ref map[string]*c15Q
	acc []string // accepted requests (labels), any order
	rej []string
}

// submit runs one admission request the way c15Sys.Apply does and, if it is accepted, records the admitted object.
// The harness bookkeeping is only touched between two scheduling points of the calling thread.
func (w *c15World) submit(op c15Op) bool {
	var err error
	var submitted *v1alpha1.ElasticQuota
	switch op.Kind {
	case "create":
		o := c15NewObject(op)
		if err = w.qt.fillQuotaDefaultInformation(o); err == nil {
			err = w.qt.ValidAddQuota(o)
		}
		submitted = o
	case "update":
		cur := w.get(op.Name)
		if cur == nil {
			w.note(false, op.label+"(404)")
			return false
		}
		o := cur.obj.DeepCopy()
		c15Modify(o, op)
		err = w.qt.ValidUpdateQuota(cur.obj, o)
		submitted = o
	case "delete":
		cur := w.get(op.Name)
		if cur == nil {
			w.note(false, op.label+"(404)")
			return false
		}
		err = w.qt.ValidDeleteQuota(cur.obj)
	}
	if err != nil {
		w.note(false, op.label)
		return false
	}
	w.note(true, op.label)
	w.mu.Lock()
	defer w.mu.Unlock()
	if op.Kind == "delete" {
		delete(w.ref, op.Name)
	} else {
		q := c15Parse(submitted)
		q.obj = submitted
		w.ref[op.Name] = q
	}
	return true
}

func (w *c15World) get(name string) *c15Q {
	w.mu.Lock()
	defer w.mu.Unlock()
	return w.ref[name]
}

func (w *c15World) note(accepted bool, label string) {
	w.mu.Lock()
	defer w.mu.Unlock()
	if accepted {
		w.acc = append(w.acc, label)
	} else {
		w.rej = append(w.rej, label)
	}
}

func c15SchedBuild(sc c15Scen) *c15World {
	w := &c15World{qt: NewQuotaTopology(c15PodClient("")), ref: map[string]*c15Q{}}
	for _, op := range sc.setup {
		if !w.submit(op) {
			return nil // (the webhook under check refuses a well-formed preparation request: the scenario cannot be set up; counted)
		}
	}
	w.acc, w.rej = nil, nil
	return w
}

func c15SchedScenarios() []c15Scen {
	cpu := func(v int64) map[string]int64 { return map[string]int64{"cpu": v} }
	mk := func(kind, name, parent, field string, c c15Content) c15Op {
		op := c15Op{Kind: kind, Name: name, Parent: parent, Field: field, C: c}
		switch kind {
		case "create":
			op.label = fmt.Sprintf("create %s parent=%s isParent=%v ns=%v max{%s} min{%s}", name, c15Short(parent), c.IsParent, c.NS, c15Ints(c.Max), c15Ints(c.Min))
		case "update":
			op.label = fmt.Sprintf("update %s %s (parent=%s isParent=%v ns=%v min{%s})", name, field, c15Short(parent), c.IsParent, c.NS, c15Ints(c.Min))
		default:
			op.label = "delete " + name
		}
		return op
	}
	par := func(name, parent string, min int64) c15Op {
		return mk("create", name, parent, "", c15Content{IsParent: true, Max: cpu(4000), Min: cpu(min)})
	}
	leaf := func(name, parent string, min int64, ns ...string) c15Op {
		c := c15Content{Max: cpu(4000), NS: ns}
		if min > 0 {
			c.Min = cpu(min)
		}
		return mk("create", name, parent, "", c)
	}
	del := func(name string) c15Op { return mk("delete", name, "", "", c15Content{}) }
	reparent := func(name, parent string) c15Op { return mk("update", name, parent, "parent", c15Content{}) }
	return []c15Scen{
		{"delete-parent||create-child", []c15Op{par("a", c15Root, 0)}, [][]c15Op{{del("a")}, {leaf("b", "a", 0)}}},
		{"delete-parent||reparent-under-it", []c15Op{par("a", c15Root, 0), leaf("b", c15Root, 0)}, [][]c15Op{{del("a")}, {reparent("b", "a")}}},
		{"delete-parent||delete-its-last-child", []c15Op{par("a", c15Root, 0), leaf("b", "a", 0)}, [][]c15Op{{del("a")}, {del("b")}}},
		{"delete-parent;create-it-again||create-child", []c15Op{par("a", c15Root, 0)}, [][]c15Op{{del("a"), leaf("a", c15Root, 0)}, {leaf("b", "a", 0)}}},
		{"unmark-parent||create-child", []c15Op{par("a", c15Root, 0)}, [][]c15Op{{mk("update", "a", "", "isparent", c15Content{IsParent: false})}, {leaf("b", "a", 0)}}},
		{"cycle-from-both-ends", []c15Op{par("a", c15Root, 0), par("b", c15Root, 0)}, [][]c15Op{{reparent("a", "b")}, {reparent("b", "a")}}},
		{"lower-parent-min||child-with-that-min", []c15Op{par("a", c15Root, 3000)}, [][]c15Op{{mk("update", "a", "", "min", c15Content{Min: cpu(1000)})}, {leaf("b", "a", 3000)}}},
		{"two-children-exceed-min-together", []c15Op{par("a", c15Root, 3000)}, [][]c15Op{{leaf("b", "a", 2000)}, {leaf("c", "a", 2000)}}},
		{"one-namespace-bound-twice", nil, [][]c15Op{{leaf("a", c15Root, 0, "ns1")}, {leaf("b", c15Root, 0, "ns1")}}},
		{"same-name-created-twice", nil, [][]c15Op{{leaf("a", c15Root, 0)}, {par("a", c15Root, 0)}}},
	}
}

func TestVerifC15Sched(t *testing.T) {
	env := mc.LoadEnv()
	res := mc.NewResult("C15", "sched", "schedules")
	bound := env.Pick(3, 4)
	outcomes := mc.NewDistinctSet()
	var execs int64
	complete := true
	scens := c15SchedScenarios()
	for _, sc := range scens {
		sc := sc
		var w *c15World
		perOutcome := map[string]bool{}
		if c15SchedBuild(sc) == nil {
			res.Count("scenarios_whose_preparation_was_refused(skipped)", 1)
			res.Diag("scenario " + sc.name + ": a preparation request was refused by the webhook; scenario skipped")
			continue
		}
		ex := &vsync.Explorer{Bound: bound, Expired: env.Expired, Build: func() ([]func(), func(), func(*vsync.Outcome)) {
			w = c15SchedBuild(sc)
			threads := make([]func(), len(sc.threads))
			for i := range sc.threads {
				i := i
				threads[i] = func() {
					for _, op := range sc.threads[i] {
						w.submit(op)
					}
				}
			}
			return threads, nil, func(o *vsync.Outcome) {
				rep := map[string]any{"scenario": sc.name, "choices": o.Choices}
				switch {
				case o.Deadlock:
					res.Violate(mc.Violation{Key: "C15|sched|deadlock|" + sc.name, What: "deadlock in " + sc.name, Replay: rep})
					return
				case o.Livelock:
					res.Violate(mc.Violation{Key: "C15|sched|livelock|" + sc.name, What: "step horizon exceeded in " + sc.name, Replay: rep})
					return
				case o.Panic != "":
					res.Violate(mc.Violation{Key: "C15|sched|panic|" + sc.name, What: o.Panic, Replay: rep})
					return
				}
				acc := append([]string{}, w.acc...)
				sort.Strings(acc)
				out := strings.Join(acc, " + ")
				outcomes.Add(sc.name + "|" + out)
				perOutcome[out] = true
				// (same name created twice: the API server stores one of them; the admitted set is judged with the later write)
				for _, b := range c15WellFormed(w.ref, false) {
					res.Violate(mc.Violation{Key: "C15|sched|" + b.Clause + "|" + sc.name,
						What: fmt.Sprintf("%s: both of two concurrent requests were served and the admitted objects are not a well-formed tree: clause %s broken at %s (%s); accepted [%s], refused %v; quotas: %s",
							sc.name, b.Clause, b.Subject, b.Detail, out, w.rej, c15RefString(w.ref)), Replay: rep})
				}
				s := &c15Sys{cfg: &c15Cfg{}, qt: w.qt, ref: w.ref, res: &c15Counters{}}
				if cl, what, _ := s.recordDiff(false); cl != "" && sc.name != "same-name-created-twice" {
					res.Violate(mc.Violation{Key: "C15|sched|record-" + cl + "|" + sc.name,
						What: fmt.Sprintf("%s: the webhook's record differs from the admitted objects after accepted [%s]: %s", sc.name, out, what), Replay: rep})
				}
			}
		}}
		if !ex.Run() {
			complete = false
			res.Capped = ex.Capped + " in " + sc.name
		}
		execs += ex.Execs
		res.Count("scenarios", 1)
		if len(perOutcome) > 1 {
			res.Count("scenarios_with_schedule_dependent_outcome", 1)
		}
		res.Sample(fmt.Sprintf("%s (bound %d): %d schedules, %d distinct sets of accepted requests", sc.name, bound, ex.Execs, len(perOutcome)))
	}
	res.States = outcomes.Len()
	res.Distinct = outcomes.Len()
	res.Transitions, res.Traces, res.Evaluations = execs, execs, execs
	res.Exhaustive = complete
	res.Bounds = map[string]any{"preemption_bound": bound, "threads": 2, "requests_per_thread": "1-2", "scenarios": len(scens)}
	res.Rule = "every schedule (scheduling points at every Lock/RLock/Unlock/RUnlock of the topology lock) of each scenario within the preemption bound; scenario = prepared admitted quotas + two goroutines submitting create/update/delete requests to the real quotaTopology; after every complete schedule the admitted objects are judged by the well-formedness predicate and compared with the webhook's record; states = distinct (scenario, set of accepted requests)"
	res.Assumptions = []string{"only lock operations are scheduling points: code between two lock operations of one goroutine runs atomically (the pod lookup of a delete is one such stretch when it is done outside the lock)",
		"the two requests of a scenario name different objects (except same-name-created-twice, where the API server persists one of them), so the admitted set does not depend on the order in which accepted requests are persisted"}
	env.Emit(res)
}
