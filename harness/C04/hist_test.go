package core

// C04 history part: explicit-state BFS over informer / scheduler event histories on the real PodGroupManager +
// GangCache. The harness plays the scheduling framework (waiting-pod map, Allow/Reject, Unreserve after a
// rejection or a failed bind) and keeps an independent reference of which member holds resources.
// See /verif/DESIGN.md §4 C04.

import (
	"context"
	"encoding/json"
	"fmt"
	"os"
	"sort"
	"strings"
	"testing"
	"time"

	corev1 "k8s.io/api/core/v1"
	metav1 "k8s.io/apimachinery/pkg/apis/meta/v1"
	"k8s.io/apimachinery/pkg/types"
	fwktype "k8s.io/kube-scheduler/framework"
	"k8s.io/kubernetes/pkg/scheduler/framework"

	"github.com/koordinator-sh/koordinator/apis/extension"
	pgv1alpha1 "github.com/koordinator-sh/koordinator/apis/thirdparty/scheduler-plugins/pkg/apis/scheduling/v1alpha1"
	"github.com/koordinator-sh/koordinator/pkg/scheduler/apis/config"
	"github.com/koordinator-sh/koordinator/pkg/scheduler/frameworkext"
	"github.com/koordinator-sh/koordinator/pkg/zzverif/mc"
)

// ---- the scheduling framework, as far as the seam uses it (trusted base) ----

type c04WaitingPod struct {
	pod      *corev1.Pod
	h        *c04Handle
	allowed  bool
	rejected bool
}

func (w *c04WaitingPod) GetPod() *corev1.Pod         { return w.pod }
func (w *c04WaitingPod) GetPendingPlugins() []string { return []string{Name} }
func (w *c04WaitingPod) Allow(pluginName string) {
	w.allowed = true
	w.h.allowLog = append(w.h.allowLog, w.pod.Name)
}
func (w *c04WaitingPod) Reject(pluginName, msg string) {
	w.rejected = true
	w.h.rejectLog = append(w.h.rejectLog, w.pod.Name)
}

// c04Handle implements only what the seam calls; anything else panics (nil embedded interface) = "the seam grew".
type c04Handle struct {
	fwktype.Handle
	waiting   map[string]*c04WaitingPod
	allowLog  []string
	rejectLog []string
}

func (h *c04Handle) IterateOverWaitingPods(cb func(fwktype.WaitingPod)) {
	names := make([]string, 0, len(h.waiting))
	for n := range h.waiting {
		names = append(names, n)
	}
	sort.Strings(names)
	for _, n := range names {
		cb(h.waiting[n])
	}
}

func (h *c04Handle) GetWaitingPod(uid types.UID) fwktype.WaitingPod {
	for _, w := range h.waiting {
		if w.pod.UID == uid {
			return w
		}
	}
	return nil
}

func (h *c04Handle) RejectWaitingPod(uid types.UID) bool {
	if w := h.GetWaitingPod(uid); w != nil {
		w.Reject("", "removed")
		return true
	}
	return false
}

// c04CacheHandle is the gang cache's handle in the PodGroup-CRD configurations: an extended handle without a running
// scheduler (the cache only uses it for the queue-activation shortcut, which it skips when Scheduler() is nil; with a
// nil handle onPodGroupAdd takes its "only UT will go here" early return and never links the gang group).
type c04CacheHandle struct{ frameworkext.ExtendedHandle }

func (c04CacheHandle) Scheduler() frameworkext.Scheduler { return nil }

// ---- configuration ----

type c04GangDef struct {
	Name string
	Min  int
	Pods []string
}

type c04Cfg struct {
	name   string
	mode   string
	policy string
	gangs  []c04GangDef
	flipAll bool // CRD configurations: the mode annotation of every gang may flip (thorough); otherwise only the first gang's
	crd    bool // gangs defined by PodGroup objects (pods carry only the pod-group label); PodGroup events join the alphabet
	// teardown (CRD): the alphabet also deletes a PodGroup whose pods are all gone (a complete teardown of the job; the
	// PodGroup can then be created again: a NEW gang, whose group has not been satisfied yet) and rewrites the PodGroup's
	// gang-groups annotation (couples it with a gang ns/GX that never exists, and back): seed C04-6
	teardown bool
	// earlyDelete (teardown): a PodGroup may also be deleted while pods of its gang still exist - even while they wait at
	// Permit (seed C04-7: the strict-mode rejection then has to find them through the framework's waiting pods, the gang
	// is no longer in the cache)
	earlyDelete bool
	depth       int // 0: the tier's default
}

// c04PG: what the informer has delivered about a gang's PodGroup object (CRD configurations)
type c04PG struct {
	present bool
	min     int
	flipped bool // the mode annotation currently says the opposite of the configuration's mode (annotation-only update)
	regrouped bool // the gang-groups annotation currently also names ns/GX, a gang that does not exist
	obj     *pgv1alpha1.PodGroup
}

func c04OtherMode(m string) string {
	if m == extension.GangModeStrict {
		return extension.GangModeNonStrict
	}
	return extension.GangModeStrict
}

// modeOf: the mode that currently applies to a roll-back / failure of a member of this gang
func (s *c04Sys) modeOf(gang string) string {
	if s.cfg.crd && s.pgs[gang].flipped {
		return c04OtherMode(s.cfg.mode)
	}
	return s.cfg.mode
}

type c04PodState int

const (
	c04Absent         c04PodState = iota
	c04Pending                    // known to the cache, holds nothing
	c04Waiting                    // Permit returned Wait: in the framework's waiting map, holds its reservation
	c04Binding                    // released (Permit success or Allow): in the binding cycle, holds its reservation
	c04Rejected                   // Reject delivered: the framework will call Unreserve, still holds until then
	c04PostBound                  // PostBind done, informer has not confirmed yet
	c04Bound                      // informer delivered the bound pod
	c04DeletedHolding             // deleted while waiting/binding: the framework will still call Unreserve
)

var c04StateNames = []string{"absent", "pending", "waiting", "binding", "rejected", "postbound", "bound", "deleted-holding"}

type c04Pod struct {
	name  string
	gang  string
	st    c04PodState
	obj   *corev1.Pod
	rv    int
	stale bool // a pre-bind (nodeName-less) update is still in flight in the informer
}

type c04Op struct {
	name    string
	enabled func(s *c04Sys) bool
	apply   func(s *c04Sys, check bool) []mc.Violation
}

type c04Sys struct {
	cfg      *c04Cfg
	ops      []c04Op
	mgr      *PodGroupManager
	h        *c04Handle
	pods     map[string]*c04Pod
	everHeld map[string]bool // gang group satisfied once: some member was bound (reference)
	pgs      map[string]*c04PG
	// orph: the gang's PodGroup was deleted while pods of the gang still existed. What such pods are to the scheduler the
	// statement does not say: they are outside the partition / release clauses and are not scheduled again, until the last
	// of them is gone. They can still sit in the framework's waiting map and then ARE waiting members of the group when
	// another (defined) member fails in strict mode.
	orph map[string]bool
	last string
}

// minOf: the gang's current minimum (the PodGroup's minMember in the CRD configurations)
func (s *c04Sys) minOf(g c04GangDef) int {
	if s.cfg.crd {
		return s.pgs[g.Name].min
	}
	return g.Min
}

// defined: is the gang's definition known to the scheduler (always, when pods carry it; after the PodGroup add otherwise)
func (s *c04Sys) defined(gang string) bool { return !s.cfg.crd || s.pgs[gang].present }

func (c *c04Cfg) pgObj(g c04GangDef, min int, flipped bool, regrouped ...bool) *pgv1alpha1.PodGroup {
	ids := c.groupIDs()
	if len(regrouped) > 0 && regrouped[0] {
		ids = append(ids, "ns/GX")
	}
	groups, _ := json.Marshal(ids)
	mode := c.mode
	if flipped {
		mode = c04OtherMode(mode)
	}
	return &pgv1alpha1.PodGroup{
		ObjectMeta: metav1.ObjectMeta{Name: g.Name, Namespace: "ns", UID: types.UID("uid-pg-" + g.Name),
			CreationTimestamp: metav1.NewTime(time.Unix(1700000000, 0)),
			Annotations: map[string]string{
				extension.AnnotationGangMode:        mode,
				extension.AnnotationGangMatchPolicy: c.policy,
				extension.AnnotationGangGroups:      string(groups),
			}},
		Spec: pgv1alpha1.PodGroupSpec{MinMember: int32(min)},
	}
}

func (c *c04Cfg) groupIDs() []string {
	var ids []string
	for _, g := range c.gangs {
		ids = append(ids, "ns/"+g.Name)
	}
	return ids
}

func (c *c04Cfg) podObj(p *c04Pod, node string) *corev1.Pod {
	var gd c04GangDef
	for _, g := range c.gangs {
		if g.Name == p.gang {
			gd = g
		}
	}
	groups, _ := json.Marshal(c.groupIDs())
	p.rv++
	obj := &corev1.Pod{
		ObjectMeta: metav1.ObjectMeta{Name: p.name, Namespace: "ns", UID: types.UID("uid-" + p.name), ResourceVersion: fmt.Sprint(p.rv),
			CreationTimestamp: metav1.NewTime(time.Unix(1700000000, 0)),
			Annotations: map[string]string{
				extension.AnnotationGangName:        gd.Name,
				extension.AnnotationGangMinNum:      fmt.Sprint(gd.Min),
				extension.AnnotationGangMode:        c.mode,
				extension.AnnotationGangMatchPolicy: c.policy,
				extension.AnnotationGangGroups:      string(groups),
			}},
		Spec:   corev1.PodSpec{NodeName: node, SchedulerName: "koord-scheduler"},
		Status: corev1.PodStatus{Phase: corev1.PodPending},
	}
	if node != "" {
		obj.Status.Phase = corev1.PodRunning
	}
	if c.crd {
		obj.Annotations = map[string]string{}
		obj.Labels = map[string]string{pgv1alpha1.PodGroupLabel: gd.Name}
	}
	return obj
}

func c04NewSys(cfg *c04Cfg, ops []c04Op) *c04Sys {
	h := &c04Handle{waiting: map[string]*c04WaitingPod{}}
	args := &config.CoschedulingArgs{DefaultTimeout: metav1.Duration{Duration: 600 * time.Second}, DefaultMatchPolicy: extension.GangMatchPolicyOnceSatisfied}
	// the cache gets a nil handle (its only use is the activation shortcut that needs a running scheduler);
	// the manager gets the recording handle, exactly what coscheduling.go passes to AllowGangGroup/Unreserve
	var ch fwktype.Handle
	if cfg.crd {
		ch = c04CacheHandle{}
	}
	mgr := &PodGroupManager{cache: NewGangCache(args, nil, nil, nil, ch), args: args, handle: h}
	s := &c04Sys{cfg: cfg, ops: ops, mgr: mgr, h: h, pods: map[string]*c04Pod{}, everHeld: map[string]bool{}, pgs: map[string]*c04PG{}, orph: map[string]bool{}}
	for _, g := range cfg.gangs {
		s.pgs[g.Name] = &c04PG{min: g.Min}
		for _, pn := range g.Pods {
			s.pods[pn] = &c04Pod{name: pn, gang: g.Name}
		}
	}
	return s
}

func (s *c04Sys) gangOf(pn string) c04GangDef {
	for _, g := range s.cfg.gangs {
		if g.Name == s.pods[pn].gang {
			return g
		}
	}
	panic("no gang")
}

func (s *c04Sys) holds(st c04PodState) bool {
	return st == c04Waiting || st == c04Binding || st == c04Rejected
}

// refSatisfied: does every gang of the group have its minimum number of members holding resources now?
func (s *c04Sys) refSatisfied() (bool, string) {
	for _, g := range s.cfg.gangs {
		if !s.defined(g.Name) {
			return false, fmt.Sprintf("the PodGroup of gang %s has not been delivered yet", g.Name)
		}
		if s.cfg.crd && s.pgs[g.Name].regrouped {
			return false, fmt.Sprintf("the PodGroup of gang %s couples it with gang ns/GX, which does not exist", g.Name)
		}
		n := 0
		for _, pn := range g.Pods {
			p := s.pods[pn]
			if s.holds(p.st) {
				n++
			} else if s.cfg.policy == extension.GangMatchPolicyWaitingAndRunning && (p.st == c04PostBound || p.st == c04Bound) {
				n++
			}
		}
		if n < s.minOf(g) {
			return false, fmt.Sprintf("gang %s has %d members holding resources, minimum %d", g.Name, n, s.minOf(g))
		}
	}
	return true, ""
}

func (s *c04Sys) v(clause, what string) mc.Violation {
	return mc.Violation{Key: "C04|hist|" + clause, What: fmt.Sprintf("[%s] %s", s.cfg.name, what)}
}

// unreserve is what the framework does for a pod whose permit/bind failed.
func (s *c04Sys) unreserve(p *c04Pod, check bool, why string) []mc.Violation {
	var viol []mc.Violation
	waitingBefore := map[string]bool{}
	for n := range s.h.waiting {
		waitingBefore[n] = true
	}
	groupSatisfiedBefore := s.everHeld["g"]
	s.h.rejectLog = nil
	delete(s.h.waiting, p.name)
	s.mgr.Unreserve(context.TODO(), framework.NewCycleState(), p.obj, "n1", s.h, Name)
	rejected := map[string]bool{}
	for _, n := range s.h.rejectLog {
		rejected[n] = true
	}
	if check {
		for n := range rejected {
			if _, ok := s.pods[n]; !ok {
				viol = append(viol, s.v("reject-outside-group", "Reject delivered to a pod outside the gang group: "+n))
			}
		}
		// (a pod that was deleted while it waited is no member any more: its late Unreserve is outside the clause)
		if p.st != c04DeletedHolding && !s.orph[p.gang] && s.modeOf(p.gang) == extension.GangModeStrict && !(s.cfg.policy == extension.GangMatchPolicyOnceSatisfied && groupSatisfiedBefore) {
			for n := range waitingBefore {
				if n != p.name && !rejected[n] {
					viol = append(viol, s.v("strict-no-reject|"+why, fmt.Sprintf("strict group not yet satisfied: member %s rolled back (%s) but waiting member %s was not rejected", p.name, why, n)))
				}
			}
		}
	}
	for n := range rejected {
		if q, ok := s.pods[n]; ok && q.st == c04Waiting {
			q.st = c04Rejected
			delete(s.h.waiting, n)
		}
	}
	return viol
}

func c04BuildOps(cfg *c04Cfg) []c04Op {
	var ops []c04Op
	var names []string
	for _, g := range cfg.gangs {
		names = append(names, g.Pods...)
	}
	for _, pn := range names {
		pn := pn
		ops = append(ops,
			c04Op{name: "informer.podAdd(" + pn + ")",
				enabled: func(s *c04Sys) bool { return s.pods[pn].st == c04Absent },
				apply: func(s *c04Sys, check bool) []mc.Violation {
					p := s.pods[pn]
					p.obj = s.cfg.podObj(p, "")
					s.mgr.cache.onPodAdd(p.obj)
					p.st = c04Pending
					return nil
				}},
			c04Op{name: "informer.podAddBound(" + pn + ")",
				enabled: func(s *c04Sys) bool { return s.pods[pn].st == c04Absent },
				apply: func(s *c04Sys, check bool) []mc.Violation {
					p := s.pods[pn]
					p.obj = s.cfg.podObj(p, "n1")
					s.mgr.cache.onPodAdd(p.obj)
					p.st = c04Bound
					s.everHeld["g"] = true
					return nil
				}},
			c04Op{name: "informer.podUpdate(" + pn + ")", // unchanged spec (e.g. a label / annotation patch)
				enabled: func(s *c04Sys) bool {
					st := s.pods[pn].st
					return st == c04Pending || st == c04Waiting || st == c04Binding || st == c04Rejected || st == c04Bound
				},
				apply: func(s *c04Sys, check bool) []mc.Violation {
					p := s.pods[pn]
					old := p.obj
					p.obj = s.cfg.podObj(p, old.Spec.NodeName)
					s.mgr.cache.onPodUpdate(old, p.obj)
					return nil
				}},
			c04Op{name: "informer.staleUpdate(" + pn + ")", // the PreBind patch event (nodeName still empty) arrives after PostBind
				enabled: func(s *c04Sys) bool { return s.pods[pn].st == c04PostBound && !s.pods[pn].stale },
				apply: func(s *c04Sys, check bool) []mc.Violation {
					p := s.pods[pn]
					old := p.obj
					p.obj = s.cfg.podObj(p, "")
					s.mgr.cache.onPodUpdate(old, p.obj)
					p.stale = true
					return nil
				}},
			c04Op{name: "informer.podBoundUpdate(" + pn + ")",
				enabled: func(s *c04Sys) bool { return s.pods[pn].st == c04PostBound },
				apply: func(s *c04Sys, check bool) []mc.Violation {
					p := s.pods[pn]
					old := p.obj
					p.obj = s.cfg.podObj(p, "n1")
					s.mgr.cache.onPodUpdate(old, p.obj)
					p.st = c04Bound
					return nil
				}},
			c04Op{name: "informer.podDelete(" + pn + ")",
				enabled: func(s *c04Sys) bool { st := s.pods[pn].st; return st != c04Absent && st != c04DeletedHolding },
				apply: func(s *c04Sys, check bool) []mc.Violation {
					p := s.pods[pn]
					s.mgr.cache.onPodDelete(p.obj)
					if s.holds(p.st) {
						// the scheduler rejects a waiting pod that gets deleted; its Unreserve follows later
						delete(s.h.waiting, pn)
						p.st = c04DeletedHolding
					} else {
						p.st, p.stale = c04Absent, false
					}
					return nil
				}},
			c04Op{name: "scheduler.permit(" + pn + ")",
				// (PreFilter fails for a member of a gang that is not initialised: no Reserve/Permit before the PodGroup arrived)
				enabled: func(s *c04Sys) bool { return s.pods[pn].st == c04Pending && s.defined(s.pods[pn].gang) && !s.orph[s.pods[pn].gang] },
				apply: func(s *c04Sys, check bool) []mc.Violation {
					var viol []mc.Violation
					p := s.pods[pn]
					s.h.allowLog = nil
					p.st = c04Waiting // Reserve has run: from now on it holds its resources
					_, st := s.mgr.Permit(context.TODO(), p.obj)
					switch st {
					case Wait:
						s.h.waiting[pn] = &c04WaitingPod{pod: p.obj, h: s.h}
					case Success:
						// what coscheduling.Permit does on Success
						sat, why := s.refSatisfied()
						s.mgr.AllowGangGroup(p.obj, s.h, Name)
						s.mgr.SucceedGangScheduling()
						if check && !(s.cfg.policy == extension.GangMatchPolicyOnceSatisfied && s.everHeld["g"]) && !sat {
							viol = append(viol, s.v("released-without-quorum|"+s.cfg.policy, fmt.Sprintf("Permit(%s) = Success and the group is released although %s (pod states %s)", pn, why, s.stateString())))
						}
						p.st = c04Binding
						for _, n := range s.h.allowLog {
							q, ok := s.pods[n]
							if !ok {
								viol = append(viol, s.v("allow-outside-group", "Allow delivered to a pod outside the gang group: "+n))
								continue
							}
							if q.st == c04Waiting {
								q.st = c04Binding
								delete(s.h.waiting, n)
							}
						}
					default:
						if check {
							viol = append(viol, s.v("permit-status", fmt.Sprintf("Permit(%s) returned %q for a known gang member", pn, st)))
						}
						p.st = c04Pending
					}
					return viol
				}},
			c04Op{name: "scheduler.permitTimeout(" + pn + ")",
				enabled: func(s *c04Sys) bool { return s.pods[pn].st == c04Waiting },
				apply: func(s *c04Sys, check bool) []mc.Violation {
					p := s.pods[pn]
					viol := s.unreserve(p, check, "permit-timeout")
					p.st = c04Pending
					return viol
				}},
			c04Op{name: "scheduler.unreserveRejected(" + pn + ")",
				enabled: func(s *c04Sys) bool { return s.pods[pn].st == c04Rejected || s.pods[pn].st == c04DeletedHolding },
				apply: func(s *c04Sys, check bool) []mc.Violation {
					p := s.pods[pn]
					viol := s.unreserve(p, check, "after-reject")
					if p.st == c04DeletedHolding {
						p.st, p.stale = c04Absent, false
					} else {
						p.st = c04Pending
					}
					return viol
				}},
			c04Op{name: "scheduler.bindFailed(" + pn + ")",
				enabled: func(s *c04Sys) bool { return s.pods[pn].st == c04Binding },
				apply: func(s *c04Sys, check bool) []mc.Violation {
					p := s.pods[pn]
					viol := s.unreserve(p, check, "bind-failure")
					p.st = c04Pending
					return viol
				}},
			c04Op{name: "scheduler.postBind(" + pn + ")",
				enabled: func(s *c04Sys) bool { return s.pods[pn].st == c04Binding },
				apply: func(s *c04Sys, check bool) []mc.Violation {
					p := s.pods[pn]
					s.mgr.PostBind(context.TODO(), p.obj, "n1")
					p.st = c04PostBound
					s.everHeld["g"] = true
					return nil
				}},
			c04Op{name: "scheduler.unschedulable(" + pn + ")", // AfterPostFilter: a pending member failed scheduling
				enabled: func(s *c04Sys) bool { return s.pods[pn].st == c04Pending && s.defined(s.pods[pn].gang) && !s.orph[s.pods[pn].gang] },
				apply: func(s *c04Sys, check bool) []mc.Violation {
					var viol []mc.Violation
					p := s.pods[pn]
					waitingBefore := map[string]bool{}
					for n := range s.h.waiting {
						waitingBefore[n] = true
					}
					s.h.rejectLog = nil
					s.mgr.AfterPostFilter(context.TODO(), framework.NewCycleState(), p.obj, s.h, Name, nil, nil)
					rejected := map[string]bool{}
					for _, n := range s.h.rejectLog {
						rejected[n] = true
					}
					if check && !s.orph[p.gang] && s.modeOf(p.gang) == extension.GangModeStrict && !(s.cfg.policy == extension.GangMatchPolicyOnceSatisfied && s.everHeld["g"]) {
						for n := range waitingBefore {
							if !rejected[n] {
								viol = append(viol, s.v("strict-no-reject|unschedulable", fmt.Sprintf("strict group not yet satisfied: member %s is unschedulable but waiting member %s was not rejected", pn, n)))
							}
						}
					}
					for n := range rejected {
						if q, ok := s.pods[n]; ok && q.st == c04Waiting {
							q.st = c04Rejected
							delete(s.h.waiting, n)
						}
					}
					return viol
				}},
		)
	}
	if cfg.crd {
		for _, g := range cfg.gangs {
			g := g
			ops = append(ops,
				c04Op{name: "informer.pgAdd(" + g.Name + ")",
					enabled: func(s *c04Sys) bool { return !s.pgs[g.Name].present },
					apply: func(s *c04Sys, check bool) []mc.Violation {
						pg := s.pgs[g.Name]
						pg.obj = s.cfg.pgObj(g, pg.min, pg.flipped, pg.regrouped)
						s.mgr.cache.onPodGroupAdd(pg.obj)
						pg.present = true
						return nil
					}},
				c04Op{name: "informer.pgUpdateMin(" + g.Name + ")", // minMember toggles between the configured value and one more
					enabled: func(s *c04Sys) bool { return s.pgs[g.Name].present },
					apply: func(s *c04Sys, check bool) []mc.Violation {
						pg := s.pgs[g.Name]
						if pg.min == g.Min {
							pg.min = g.Min + 1
						} else {
							pg.min = g.Min
						}
						old := pg.obj
						pg.obj = s.cfg.pgObj(g, pg.min, pg.flipped, pg.regrouped)
						s.mgr.cache.onPodGroupUpdate(old, pg.obj)
						return nil
					}},
				c04Op{name: "informer.pgFlipMode(" + g.Name + ")", // annotation-only update: the mode annotation switches strict <-> non-strict, the spec is untouched
					enabled: func(s *c04Sys) bool { return s.pgs[g.Name].present && (s.cfg.flipAll || g.Name == s.cfg.gangs[0].Name) },
					apply: func(s *c04Sys, check bool) []mc.Violation {
						pg := s.pgs[g.Name]
						pg.flipped = !pg.flipped
						old := pg.obj
						pg.obj = s.cfg.pgObj(g, pg.min, pg.flipped, pg.regrouped)
						s.mgr.cache.onPodGroupUpdate(old, pg.obj)
						return nil
					}})
			if cfg.teardown {
				ops = append(ops,
					c04Op{name: "informer.pgRegroup(" + g.Name + ")", // annotation-only update: the gang-groups annotation gains / loses ns/GX
						// (single-gang configurations only: with several gangs a one-sided rewrite leaves "the group" ill-defined)
						enabled: func(s *c04Sys) bool { return s.pgs[g.Name].present && len(s.cfg.gangs) == 1 },
						apply: func(s *c04Sys, check bool) []mc.Violation {
							pg := s.pgs[g.Name]
							pg.regrouped = !pg.regrouped
							old := pg.obj
							pg.obj = s.cfg.pgObj(g, pg.min, pg.flipped, pg.regrouped)
							s.mgr.cache.onPodGroupUpdate(old, pg.obj)
							return nil
						}},
					c04Op{name: "informer.pgDelete(" + g.Name + ")", // the job is torn down: its pods are gone, now the PodGroup goes
						enabled: func(s *c04Sys) bool {
							if !s.pgs[g.Name].present {
								return false
							}
							if s.cfg.earlyDelete {
								return true
							}
							for _, pn := range g.Pods {
								if s.pods[pn].st != c04Absent {
									return false
								}
							}
							return true
						},
						apply: func(s *c04Sys, check bool) []mc.Violation {
							pg := s.pgs[g.Name]
							s.mgr.cache.onPodGroupDelete(pg.obj)
							pg.present, pg.regrouped, pg.obj = false, false, nil
							for _, pn := range g.Pods {
								if s.pods[pn].st != c04Absent {
									s.orph[g.Name] = true
								}
							}
							// the whole gang group is gone: whatever comes under these names next is a new group, not yet satisfied
							gone := true
							for _, og := range s.cfg.gangs {
								if s.pgs[og.Name].present {
									gone = false
								}
								for _, pn := range og.Pods {
									if s.pods[pn].st != c04Absent {
										gone = false
									}
								}
							}
							if gone {
								s.everHeld["g"] = false
							}
							return nil
						}})
			}
		}
	}
	return ops
}

func (s *c04Sys) pgString() string {
	var sb strings.Builder
	for _, g := range s.cfg.gangs {
		fmt.Fprintf(&sb, "%s:%v/%d/%v/%v ", g.Name, s.pgs[g.Name].present, s.pgs[g.Name].min, s.pgs[g.Name].flipped, s.pgs[g.Name].regrouped)
	}
	return sb.String()
}

func (s *c04Sys) stateString() string {
	var names []string
	for n := range s.pods {
		names = append(names, n)
	}
	sort.Strings(names)
	var sb strings.Builder
	for _, n := range names {
		fmt.Fprintf(&sb, "%s=%s ", n, c04StateNames[s.pods[n].st])
	}
	return sb.String()
}

func (s *c04Sys) Apply(op int, check bool) (bool, []mc.Violation) {
	o := s.ops[op]
	if !o.enabled(s) {
		return false, nil
	}
	viol := o.apply(s, check)
	s.last = o.name
	for gn := range s.orph { // an orphaned gang is over when its last pod is gone
		gone := true
		for _, g := range s.cfg.gangs {
			if g.Name == gn {
				for _, pn := range g.Pods {
					if s.pods[pn].st != c04Absent {
						gone = false
					}
				}
			}
		}
		if gone {
			delete(s.orph, gn)
		}
	}
	return true, viol
}

func (s *c04Sys) Invariants() []mc.Violation {
	var viol []mc.Violation
	after := strings.SplitN(s.last, "(", 2)[0]
	sums := s.mgr.GetGangSummaries()
	for _, g := range s.cfg.gangs {
		if s.orph[g.Name] {
			continue
		}
		sm := sums["ns/"+g.Name]
		alive := 0
		for _, pn := range g.Pods {
			if st := s.pods[pn].st; st != c04Absent && st != c04DeletedHolding {
				alive++
			}
		}
		if sm == nil {
			if alive > 0 {
				viol = append(viol, s.v("gang-missing", fmt.Sprintf("gang %s has %d live members but is not in the cache", g.Name, alive)))
			}
			continue
		}
		for _, pn := range g.Pods {
			p := s.pods[pn]
			id := "ns/" + pn
			in := 0
			var where []string
			if sm.PendingChildren.Has(id) {
				in++
				where = append(where, "pending")
			}
			if sm.WaitingForBindChildren.Has(id) {
				in++
				where = append(where, "waiting")
			}
			if sm.BoundChildren.Has(id) {
				in++
				where = append(where, "bound")
			}
			member := p.st != c04Absent && p.st != c04DeletedHolding
			switch {
			case member && !sm.Children.Has(id):
				viol = append(viol, s.v("partition|member-not-child|after:"+after, fmt.Sprintf("live member %s (%s) is not among the children of gang %s", pn, c04StateNames[p.st], g.Name)))
			case member && in != 1:
				viol = append(viol, s.v(fmt.Sprintf("partition|member-in-%d-sets|after:%s", in, after), fmt.Sprintf("member %s (%s) is in %d of the pending/waiting/bound sets %v of gang %s; states: %s", pn, c04StateNames[p.st], in, where, g.Name, s.stateString())))
			case !member && (in != 0 || sm.Children.Has(id)):
				viol = append(viol, s.v("partition|ghost|after:"+after, fmt.Sprintf("pod %s (%s) is not a member any more but is still in sets %v (child=%v) of gang %s", pn, c04StateNames[p.st], where, sm.Children.Has(id), g.Name)))
			}
			if member && in == 1 {
				// the set must be the one the events established
				want := "pending"
				if s.holds(p.st) {
					want = "waiting"
				} else if p.st == c04PostBound || p.st == c04Bound {
					want = "bound"
				}
				if where[0] != want {
					viol = append(viol, s.v("partition|wrong-set|"+want+"-as-"+where[0]+"|after:"+after, fmt.Sprintf("member %s is %s, so it belongs to the %s set, but gang %s lists it as %s", pn, c04StateNames[p.st], want, g.Name, where[0])))
				}
			}
		}
	}
	return viol
}

var c04Dumper = &mc.Dumper{SkipFields: map[string]bool{
	// wall-clock stamps that no decision reads on the explored paths
	"Gang.CreateTime": true, "GangSummary.CreateTime": true,
	// pod objects: identity (name) is the map key; resourceVersions are monotone counters nobody compares
	"ObjectMeta.ResourceVersion": true,
}}

func (s *c04Sys) Key() string {
	var wn []string
	for n, w := range s.h.waiting {
		wn = append(wn, fmt.Sprintf("%s:%v:%v", n, w.allowed, w.rejected))
	}
	sort.Strings(wn)
	return c04Dumper.Digest(s.mgr.cache.gangItems, s.mgr.cache.gangGroupInfoMap, s.stateString(), strings.Join(wn, ","), fmt.Sprint(s.everHeld["g"]), s.staleString(), s.pgString(), fmt.Sprint(mc.SortedKeys(s.orph)))
}

func (s *c04Sys) staleString() string {
	var out []string
	for n, p := range s.pods {
		if p.stale {
			out = append(out, n)
		}
	}
	sort.Strings(out)
	return strings.Join(out, ",")
}

func c04Configs(env *mc.Env) []*c04Cfg {
	var cfgs []*c04Cfg
	shapes := map[string][]c04GangDef{
		"1gang-min2-3pods":      {{"G1", 2, []string{"a", "b", "c"}}},
		"2gangs-min2+min1":      {{"G1", 2, []string{"a", "b"}}, {"G2", 1, []string{"c"}}},
		"3gangs-min1+min1+min2": {{"G1", 1, []string{"a"}}, {"G2", 1, []string{"b"}}, {"G3", 2, []string{"c", "d"}}},
	}
	shapeNames := []string{"1gang-min2-3pods", "2gangs-min2+min1"}
	if env.Thorough() {
		shapeNames = append(shapeNames, "3gangs-min1+min1+min2")
	}
	for _, sh := range shapeNames {
		for _, mode := range []string{extension.GangModeStrict, extension.GangModeNonStrict} {
			for _, pol := range []string{extension.GangMatchPolicyOnlyWaiting, extension.GangMatchPolicyWaitingAndRunning, extension.GangMatchPolicyOnceSatisfied} {
				cfgs = append(cfgs, &c04Cfg{name: sh + "|" + mode + "|" + pol, mode: mode, policy: pol, gangs: shapes[sh]})
			}
		}
	}
	// gangs defined by PodGroup objects: the PodGroup may arrive before, between or after its pods, minMember changes
	crdShapes := []string{"2gangs-min2+min1"}
	if env.Thorough() {
		crdShapes = append(crdShapes, "1gang-min2-3pods")
	}
	for _, sh := range crdShapes {
		for _, mode := range []string{extension.GangModeStrict, extension.GangModeNonStrict} {
			for _, pol := range []string{extension.GangMatchPolicyOnlyWaiting, extension.GangMatchPolicyWaitingAndRunning, extension.GangMatchPolicyOnceSatisfied} {
				if !env.Thorough() && mode == extension.GangModeNonStrict && pol != extension.GangMatchPolicyOnceSatisfied {
					continue
				}
				cfgs = append(cfgs, &c04Cfg{name: "crd|" + sh + "|" + mode + "|" + pol, mode: mode, policy: pol, gangs: shapes[sh], crd: true, flipAll: env.Thorough()})
			}
		}
	}
	// complete teardown and re-creation of a PodGroup-defined gang, gang-groups annotation rewritten in between
	two := []c04GangDef{{"G1", 2, []string{"a", "b"}}}
	cfgs = append(cfgs, &c04Cfg{name: "crd-teardown|1gang-min2-2pods|" + extension.GangModeStrict + "|" + extension.GangMatchPolicyOnceSatisfied,
		mode: extension.GangModeStrict, policy: extension.GangMatchPolicyOnceSatisfied, gangs: two, crd: true, teardown: true, depth: env.Pick(14, 16)})
	// a PodGroup deleted while members of its gang still wait
	cfgs = append(cfgs, &c04Cfg{name: "crd-early-delete|2gangs-min1+min2|" + extension.GangModeStrict + "|" + extension.GangMatchPolicyWaitingAndRunning,
		mode: extension.GangModeStrict, policy: extension.GangMatchPolicyWaitingAndRunning, gangs: []c04GangDef{{"G1", 1, []string{"a"}}, {"G2", 2, []string{"b", "c"}}},
		crd: true, teardown: true, earlyDelete: true, depth: env.Pick(8, 10)})
	if env.Thorough() {
		cfgs = append(cfgs, &c04Cfg{name: "crd-teardown|1gang-min2-2pods|" + extension.GangModeStrict + "|" + extension.GangMatchPolicyWaitingAndRunning,
			mode: extension.GangModeStrict, policy: extension.GangMatchPolicyWaitingAndRunning, gangs: two, crd: true, teardown: true, depth: 14})
	}
	return cfgs
}

func TestVerifC04Hist(t *testing.T) {
	env := mc.LoadEnv()
	only := os.Getenv("VERIF_C04_CFG")
	for _, cfg := range c04Configs(env) {
		if only != "" && !strings.Contains(cfg.name, only) {
			continue
		}
		cfg := cfg
		ops := c04BuildOps(cfg)
		res := mc.NewResult("C04", "hist-"+cfg.name, "bfs")
		res.Rule = fmt.Sprintf("BFS over all sequences of the %d-event alphabet (informer pod add / add-bound / update / stale pre-bind update / bound update / delete; scheduler permit, permit timeout, unreserve after reject, bind failure, post-bind, unschedulable member) on the real PodGroupManager+GangCache; the harness plays the framework's waiting-pod map", len(ops))
		res.Assumptions = []string{
			"framework contract (trusted base): Permit=Wait puts the pod into the waiting map; Allow releases it to the binding cycle; Reject (or permit timeout, bind failure, deletion while waiting) is followed by Unreserve for that pod; PostBind only after a successful bind; informer events per pod in resourceVersion order, the PreBind patch event may arrive after PostBind",
			"gangs defined by pod annotations, or (configurations crd|...) by PodGroup objects whose add event may arrive in any order relative to the pods and whose minMember changes; PodGroup deletion only in the configurations crd-teardown|... and only after the gang's pods are gone (the statement does not say what a member of a deleted gang is); one gang group per configuration",
		}
		depth := env.Pick(10, 14)
		if len(cfg.gangs) == 3 {
			depth = 9
		}
		if cfg.depth > 0 {
			depth = cfg.depth
		}
		b := &mc.BFS{Res: res, Env: env, New: func() mc.System { return c04NewSys(cfg, ops) }, NumOps: len(ops),
			OpName: func(i int) string { return ops[i].name }, MaxDepth: depth, Repeats: 0}
		b.Run()
		env.Emit(res)
	}
}
