package core

// C04 schedules part: the informer goroutine (gang cache event handlers) or the binding goroutine (PostBind /
// Unreserve of a released member) races the scheduling goroutine
// (Permit / AllowGangGroup / Unreserve / PostBind / AfterPostFilter) on the same gang group; every interleaving
// up to a preemption bound under the controlled scheduler (sync shim on this package). Oracle: no deadlock, no
// panic, the partition invariant at quiescence, and the observable outcome (permit verdicts, Allow/Reject
// deliveries, gang sets, once-satisfied flag) equals the outcome of some sequential order of the same calls.

import (
	"context"
	"fmt"
	"sort"
	"strings"
	"testing"

	corev1 "k8s.io/api/core/v1"
	"k8s.io/kubernetes/pkg/scheduler/framework"

	"github.com/koordinator-sh/koordinator/apis/extension"
	"github.com/koordinator-sh/koordinator/pkg/zzverif/mc"
	"github.com/koordinator-sh/koordinator/pkg/zzverif/mc/vsync"
)

type c04World struct {
	s   *c04Sys
	obj map[string]*corev1.Pod // pending objects
	bnd map[string]*corev1.Pod // bound objects
	log []string               // per-call results, in program order per thread (prefixed by thread)

	// reference bookkeeping for the property-level oracle
	members   []map[string]bool // membership (informer view) after 0,1,2,... informer events of this execution
	addBounds []bool            // did informer event k add an already bound member
	iStarted  int               // informer events started
	iDone     int               // informer events completed
	holding   map[string]bool   // pods that hold a reservation (scheduler goroutine's own view)
	bound     map[string]bool   // pods post-bound by the scheduler goroutine
	hb        []c04HB           // every version of (holding, bound) of this execution: a second goroutine (the binding cycle) changes them too
	pbStarted int               // PostBind calls started (a started PostBind may already have set the once-satisfied flag)
	viol      []string
}

type c04HB struct{ holding, bound map[string]bool }

// snap records the current (holding, bound) as a new version. Additions of a holder are recorded before the call
// that adds it and removals after the call that removes it has returned, so the versions spanned by a Permit call
// cover every set of holders the call may legitimately have read.
func (w *c04World) snap() {
	h, b := map[string]bool{}, map[string]bool{}
	for k, v := range w.holding {
		h[k] = v
	}
	for k, v := range w.bound {
		b[k] = v
	}
	w.hb = append(w.hb, c04HB{h, b})
}

func (w *c04World) informer(pn string, add, del, addBound bool, f func()) {
	w.iStarted++
	f()
	m := map[string]bool{}
	for k, v := range w.members[len(w.members)-1] {
		m[k] = v
	}
	if add {
		m[pn] = true
	}
	if del {
		delete(m, pn)
	}
	w.members = append(w.members, m)
	w.addBounds = append(w.addBounds, addBound)
	w.iDone++
}

// quorumAt: does every gang have its minimum of members holding resources, for the membership after k informer events?
//
// The pod under Permit itself always counts: it holds its reservation, and a deletion of that very pod racing its own
// scheduling cycle is a race no permit logic can close (its bind fails and rolls the group back afterwards).
func (w *c04World) quorumAt(k, hv int, self string) bool {
	cfg := w.s.cfg
	holding, bound := w.hb[hv].holding, w.hb[hv].bound
	for _, g := range cfg.gangs {
		n := 0
		for _, pn := range g.Pods {
			if !w.members[k][pn] && pn != self {
				continue
			}
			if holding[pn] || (cfg.policy == extension.GangMatchPolicyWaitingAndRunning && bound[pn]) {
				n++
			}
		}
		if n < g.Min {
			return false
		}
	}
	return true
}

type c04Step struct {
	name string
	do   func(w *c04World, tag string)
}

func c04Steps() map[string]c04Step {
	m := map[string]c04Step{}
	for _, pn := range []string{"a", "b", "c"} {
		pn := pn
		m["add("+pn+")"] = c04Step{"informer.add(" + pn + ")", func(w *c04World, tag string) {
			w.informer(pn, true, false, false, func() { w.s.mgr.cache.onPodAdd(w.obj[pn]) })
		}}
		m["addBound("+pn+")"] = c04Step{"informer.addBound(" + pn + ")", func(w *c04World, tag string) {
			w.informer(pn, true, false, true, func() { w.s.mgr.cache.onPodAdd(w.bnd[pn]) })
		}}
		m["update("+pn+")"] = c04Step{"informer.update(" + pn + ")", func(w *c04World, tag string) {
			w.informer(pn, false, false, false, func() { w.s.mgr.cache.onPodUpdate(w.obj[pn], w.obj[pn]) })
		}}
		m["boundUpdate("+pn+")"] = c04Step{"informer.boundUpdate(" + pn + ")", func(w *c04World, tag string) {
			w.informer(pn, false, false, false, func() { w.s.mgr.cache.onPodUpdate(w.obj[pn], w.bnd[pn]) })
		}}
		m["delete("+pn+")"] = c04Step{"informer.delete(" + pn + ")", func(w *c04World, tag string) {
			w.informer(pn, false, true, false, func() { w.s.mgr.cache.onPodDelete(w.obj[pn]) })
		}}
		m["permit("+pn+")"] = c04Step{"scheduler.permit(" + pn + ")", func(w *c04World, tag string) {
			s := w.s
			s.h.allowLog = nil
			w.holding[pn] = true // Reserve has run
			w.snap()
			k0, h0 := w.iDone, len(w.hb)-1
			_, st := s.mgr.Permit(context.TODO(), w.obj[pn])
			k1, h1 := w.iStarted, len(w.hb)-1
			switch st {
			case Wait:
				s.h.waiting[pn] = &c04WaitingPod{pod: w.obj[pn], h: s.h}
			case Success:
				// clause 1 in its linearizable form: at some point of the call's interval (= for the membership after
				// some number k0..k1 of informer events) every gang of the group had its quorum. A group already
				// satisfied under the once-satisfied policy is exempt (an in-flight bound add is read permissively).
				exempt := false
				if s.cfg.policy == extension.GangMatchPolicyOnceSatisfied {
					for _, b := range w.bound {
						exempt = exempt || b
					}
					for k := 0; k < k1 && k < len(w.addBounds); k++ {
						exempt = exempt || w.addBounds[k]
					}
					exempt = exempt || k1 > len(w.addBounds) || w.pbStarted > 0
				}
				ok := exempt
				for k := k0; k <= k1 && k < len(w.members) && !ok; k++ {
					for hv := h0; hv <= h1 && !ok; hv++ {
						ok = w.quorumAt(k, hv, pn)
					}
				}
				if !ok && k1 >= len(w.members) {
					ok = true // an informer event is still in flight at the end of the call: unknown membership, be permissive
				}
				if !ok {
					w.viol = append(w.viol, fmt.Sprintf("Permit(%s)=Success although at no point of the call (informer events %d..%d) every gang had its minimum of members holding resources; holding=%v bound=%v members=%v", pn, k0, k1, w.holding, w.bound, w.members[k0:]))
				}
				s.mgr.AllowGangGroup(w.obj[pn], s.h, Name)
				s.mgr.SucceedGangScheduling()
				al := append([]string{}, s.h.allowLog...)
				sort.Strings(al)
				for _, n := range al {
					delete(s.h.waiting, n)
				}
				w.log = append(w.log, fmt.Sprintf("%s:allowed%v", tag, al))
			}
			w.log = append(w.log, fmt.Sprintf("%s:permit(%s)=%s", tag, pn, st))
		}}
		m["unreserve("+pn+")"] = c04Step{"scheduler.unreserve(" + pn + ")", func(w *c04World, tag string) {
			s := w.s
			s.h.rejectLog = nil
			delete(s.h.waiting, pn)
			s.mgr.Unreserve(context.TODO(), framework.NewCycleState(), w.obj[pn], "n1", s.h, Name)
			delete(w.holding, pn)
			w.snap()
			rl := append([]string{}, s.h.rejectLog...)
			sort.Strings(rl)
			for _, n := range rl {
				delete(s.h.waiting, n)
			}
			w.log = append(w.log, fmt.Sprintf("%s:unreserve(%s) rejected%v", tag, pn, rl))
		}}
		m["postBind("+pn+")"] = c04Step{"scheduler.postBind(" + pn + ")", func(w *c04World, tag string) {
			w.pbStarted++
			w.s.mgr.PostBind(context.TODO(), w.obj[pn], "n1")
			delete(w.holding, pn)
			w.bound[pn] = true
			w.snap()
		}}
		m["unschedulable("+pn+")"] = c04Step{"scheduler.unschedulable(" + pn + ")", func(w *c04World, tag string) {
			s := w.s
			s.h.rejectLog = nil
			s.mgr.AfterPostFilter(context.TODO(), framework.NewCycleState(), w.obj[pn], s.h, Name, nil, nil)
			rl := append([]string{}, s.h.rejectLog...)
			sort.Strings(rl)
			for _, n := range rl {
				delete(s.h.waiting, n)
			}
			w.log = append(w.log, fmt.Sprintf("%s:unschedulable(%s) rejected%v", tag, pn, rl))
		}}
	}
	return m
}

type c04Scen struct {
	cfg     *c04Cfg
	setup   []string
	threads [][]string
}

func (sc c04Scen) String() string {
	var ts []string
	for _, t := range sc.threads {
		ts = append(ts, strings.Join(t, ";"))
	}
	return fmt.Sprintf("[%s] setup{%s} %s", sc.cfg.name, strings.Join(sc.setup, ";"), strings.Join(ts, " || "))
}

func c04BuildWorld(sc c04Scen, steps map[string]c04Step) *c04World {
	s := c04NewSys(sc.cfg, nil)
	w := &c04World{s: s, obj: map[string]*corev1.Pod{}, bnd: map[string]*corev1.Pod{}, members: []map[string]bool{{}}, holding: map[string]bool{}, bound: map[string]bool{}}
	w.snap()
	for pn, p := range s.pods {
		w.obj[pn] = sc.cfg.podObj(p, "")
		w.bnd[pn] = sc.cfg.podObj(p, "n1")
	}
	for _, st := range sc.setup {
		steps[st].do(w, "setup")
	}
	// the setup is history: membership so far becomes the baseline
	w.log = nil
	w.members = []map[string]bool{w.members[len(w.members)-1]}
	w.addBounds, w.iStarted, w.iDone, w.viol = nil, 0, 0, nil
	w.hb = nil
	w.snap()
	return w
}

func c04Outcome(w *c04World) (string, string) {
	var sb strings.Builder
	sums := w.s.mgr.GetGangSummaries()
	partition := ""
	for _, id := range mc.SortedKeys(sums) {
		sm := sums[id]
		l := func(set interface{ UnsortedList() []string }) []string {
			x := set.UnsortedList()
			sort.Strings(x)
			return x
		}
		fmt.Fprintf(&sb, "%s{children=%v pending=%v waiting=%v bound=%v once=%v} ", id, l(sm.Children), l(sm.PendingChildren), l(sm.WaitingForBindChildren), l(sm.BoundChildren), sm.OnceResourceSatisfied)
		for _, c := range sm.Children.UnsortedList() {
			n := 0
			for _, set := range []interface{ Has(string) bool }{sm.PendingChildren, sm.WaitingForBindChildren, sm.BoundChildren} {
				if set.Has(c) {
					n++
				}
			}
			if n != 1 {
				partition = fmt.Sprintf("child %s of %s is in %d of the pending/waiting/bound sets", c, id, n)
			}
		}
		for _, set := range []interface{ UnsortedList() []string }{sm.PendingChildren, sm.WaitingForBindChildren, sm.BoundChildren} {
			for _, c := range set.UnsortedList() {
				if !sm.Children.Has(c) {
					partition = fmt.Sprintf("%s is in a pending/waiting/bound set of %s but is not a child", c, id)
				}
			}
		}
	}
	var wn []string
	for n := range w.s.h.waiting {
		wn = append(wn, n)
	}
	sort.Strings(wn)
	lg := append([]string{}, w.log...)
	sort.Strings(lg)
	fmt.Fprintf(&sb, "fwkWaiting=%v log=%v", wn, lg)
	return sb.String(), partition
}

func c04SequentialOutcomes(sc c04Scen, steps map[string]c04Step) map[string]string {
	out := map[string]string{}
	idx := make([]int, len(sc.threads))
	var order []int
	var rec func()
	rec = func() {
		done := true
		for t := range sc.threads {
			if idx[t] < len(sc.threads[t]) {
				done = false
				idx[t]++
				order = append(order, t)
				rec()
				order = order[:len(order)-1]
				idx[t]--
			}
		}
		if done {
			w := c04BuildWorld(sc, steps)
			pos := make([]int, len(sc.threads))
			var names []string
			for _, t := range order {
				st := steps[sc.threads[t][pos[t]]]
				pos[t]++
				st.do(w, fmt.Sprintf("T%d", t))
				names = append(names, st.name)
			}
			o, _ := c04Outcome(w)
			out[o] = strings.Join(names, " ; ")
		}
	}
	rec()
	return out
}

func c04Scenarios(env *mc.Env) []c04Scen {
	one := []c04GangDef{{"G1", 2, []string{"a", "b", "c"}}}
	two := []c04GangDef{{"G1", 2, []string{"a", "b"}}, {"G2", 1, []string{"c"}}}
	var scens []c04Scen
	type tmpl struct {
		gangs   []c04GangDef
		setup   []string
		sched   [][]string
		informs [][]string
	}
	tmpls := []tmpl{
		// a waits, b is about to be permitted (which completes the quorum)
		{one, []string{"add(a)", "add(b)", "permit(a)"},
			[][]string{{"permit(b)"}, {"permit(b)", "postBind(b)"}, {"unreserve(a)"}, {"unschedulable(b)"}, {"permit(b)", "unreserve(b)"}},
			[][]string{{"delete(a)"}, {"delete(b)"}, {"update(a)"}, {"add(c)"}, {"addBound(c)"}, {"delete(a)", "add(a)"}, {"update(b)", "update(a)"}}},
		// a and b released, in the binding cycle
		{one, []string{"add(a)", "add(b)", "add(c)", "permit(a)", "permit(b)"},
			[][]string{{"postBind(a)", "postBind(b)"}, {"unreserve(a)"}, {"postBind(a)", "unreserve(b)"}, {"permit(c)"}},
			[][]string{{"delete(a)"}, {"update(a)"}, {"boundUpdate(a)"}, {"delete(c)"}, {"update(a)", "boundUpdate(a)"}}},
		// two gangs in a group: G1 complete and waiting, c (G2) decides
		{two, []string{"add(a)", "add(b)", "add(c)", "permit(a)", "permit(b)"},
			[][]string{{"permit(c)"}, {"permit(c)", "postBind(c)"}, {"unreserve(a)"}, {"unschedulable(c)"}},
			[][]string{{"delete(a)"}, {"delete(c)"}, {"update(c)"}, {"delete(b)", "add(b)"}, {"delete(a)", "delete(b)"}}},
	}
	// the binding cycle is a goroutine of its own: PostBind / a failed bind's Unreserve of a released member races the
	// scheduling goroutine's next cycles (retries of members whose bind failed). Not part of the free-running race pass:
	// the fake handle's waiting map is shared by the two threads (the real framework guards its map with a lock).
	if vsync.FreeRunReps == 0 {
		three := []c04GangDef{{"G1", 3, []string{"a", "b", "c"}}}
		released := []string{"add(a)", "add(b)", "add(c)", "permit(a)", "permit(b)", "permit(c)"}
		tmpls = append(tmpls,
			// all three released, binds of b and c failed: a alone holds resources while it is post-bound
			tmpl{three, append(append([]string{}, released...), "unreserve(b)", "unreserve(c)"),
				[][]string{{"permit(b)"}, {"permit(b)", "permit(c)"}, {"permit(b)", "unreserve(b)"}},
				[][]string{{"postBind(a)"}, {"unreserve(a)"}}},
			// all three released, bind of c failed: a and b are post-bound / rolled back while c retries
			tmpl{three, append(append([]string{}, released...), "unreserve(c)"),
				[][]string{{"permit(c)"}, {"permit(c)", "unreserve(c)"}},
				[][]string{{"postBind(a)", "postBind(b)"}, {"postBind(a)", "unreserve(b)"}, {"unreserve(a)"}}},
			// two gangs: G1's b and G2's c failed to bind, c retries while a is post-bound
			tmpl{two, append(append([]string{}, released...), "unreserve(b)", "unreserve(c)"),
				[][]string{{"permit(c)"}, {"permit(b)"}, {"permit(c)", "permit(b)"}},
				[][]string{{"postBind(a)"}, {"unreserve(a)"}}},
		)
	}
	modes := []string{extension.GangModeStrict}
	pols := []string{extension.GangMatchPolicyOnceSatisfied, extension.GangMatchPolicyWaitingAndRunning}
	if env.Thorough() {
		modes = append(modes, extension.GangModeNonStrict)
		pols = append(pols, extension.GangMatchPolicyOnlyWaiting)
	}
	for ti, tp := range tmpls {
		for _, mode := range modes {
			for _, pol := range pols {
				cfg := &c04Cfg{name: fmt.Sprintf("t%d|%s|%s", ti, mode, pol), mode: mode, policy: pol, gangs: tp.gangs}
				for _, sp := range tp.sched {
					for _, ip := range tp.informs {
						scens = append(scens, c04Scen{cfg: cfg, setup: tp.setup, threads: [][]string{sp, ip}})
					}
				}
			}
		}
	}
	return scens
}

func TestVerifC04Sched(t *testing.T) {
	env := mc.LoadEnv()
	res := mc.NewResult("C04", "sched", "schedules")
	steps := c04Steps()
	scens := c04Scenarios(env)
	bound := env.Pick(2, 3)
	var execs, maxExecs int64
	outcomesSeen := mc.NewDistinctSet()
	complete := true
	for si, sc := range scens {
		if !env.Mine(si) {
			continue
		}
		if env.Expired() {
			complete = false
			res.Capped = fmt.Sprintf("time budget hit at scenario %d of %d (this shard)", si, len(scens))
			break
		}
		sname := sc.String()
		seq := c04SequentialOutcomes(sc, steps)
		var w *c04World
		ex := &vsync.Explorer{Bound: bound, Expired: env.Expired, Build: func() ([]func(), func(), func(*vsync.Outcome)) {
			w = c04BuildWorld(sc, steps)
			threads := make([]func(), len(sc.threads))
			for i := range sc.threads {
				i := i
				threads[i] = func() {
					for _, st := range sc.threads[i] {
						steps[st].do(w, fmt.Sprintf("T%d", i))
					}
				}
			}
			return threads, nil, func(o *vsync.Outcome) {
				rep := map[string]any{"scenario": sname, "choices": o.Choices}
				switch {
				case o.Deadlock:
					res.Violate(mc.Violation{Key: "C04|sched|deadlock|" + sname, What: "deadlock in " + sname, Replay: rep})
				case o.Livelock:
					res.Violate(mc.Violation{Key: "C04|sched|livelock|" + sname, What: "step horizon exceeded in " + sname, Replay: rep})
				case o.Panic != "":
					res.Violate(mc.Violation{Key: "C04|sched|panic|" + sname, What: o.Panic, Replay: rep})
				default:
					got, _ := c04Outcome(w)
					outcomesSeen.Add(sname + got)
					for _, v := range w.viol {
						res.Violate(mc.Violation{Key: "C04|sched|released-without-quorum|" + sname, What: sname + ": " + v, Replay: rep})
					}
					// partition of the live members (informer view at quiescence)
					final := w.members[len(w.members)-1]
					sums := w.s.mgr.GetGangSummaries()
					for _, g := range sc.cfg.gangs {
						sm := sums["ns/"+g.Name]
						for _, pn := range g.Pods {
							if !final[pn] || sm == nil {
								continue
							}
							id, n := "ns/"+pn, 0
							for _, set := range []interface{ Has(string) bool }{sm.PendingChildren, sm.WaitingForBindChildren, sm.BoundChildren} {
								if set.Has(id) {
									n++
								}
							}
							if n != 1 || !sm.Children.Has(id) {
								res.Violate(mc.Violation{Key: "C04|sched|partition|" + sname, What: fmt.Sprintf("%s: at quiescence live member %s is in %d of the pending/waiting/bound sets (child=%v); %s", sname, pn, n, sm.Children.Has(id), got), Replay: rep})
							}
						}
					}
					// agreement with a sequential order is NOT demanded by the property (a delete racing a permit may
					// legitimately leave the group waiting); it is only counted
					if _, ok := seq[got]; !ok {
						res.Count("diag_outcomes_equal_to_no_sequential_order", 1)
					}
				}
			}
		}}
		if !ex.Run() {
			complete = false
			res.Capped = ex.Capped + " in " + sname
		}
		execs += ex.Execs
		if ex.Execs > maxExecs {
			maxExecs = ex.Execs
		}
		res.Count("scenarios", 1)
		res.Count("sequential_orders", int64(len(seq)))
		if len(seq) > 1 {
			res.Count("scenarios_with_order_dependent_outcome", 1)
		}
		if si%23 == 0 {
			res.Sample(fmt.Sprintf("%s (bound %d): %d schedules, %d distinct sequential outcomes", sname, bound, ex.Execs, len(seq)))
		}
	}
	res.States = outcomesSeen.Len()
	res.Transitions, res.Traces, res.Evaluations = execs, execs, execs
	res.Distinct = outcomesSeen.Len()
	res.Exhaustive = complete
	res.MaxCounter("max_schedules_in_one_scenario", maxExecs)
	res.Bounds = map[string]any{"preemption_bound": bound, "threads": 2, "calls_per_thread": "1-2", "scenarios_total": len(scens)}
	res.Rule = "every schedule (scheduling points at every Lock/RLock/Unlock/RUnlock of the package's mutexes) of each scenario within the preemption bound; scenario = prepared gang group state + scheduler-goroutine calls || informer-goroutine events (or binding-goroutine calls); states = distinct (scenario, outcome) pairs; transitions/traces = complete executions of the real code"
	res.Assumptions = []string{"only lock operations are scheduling points: code between two lock operations of one thread runs atomically",
		"the framework's waiting-pod map is only touched by the scheduling goroutine in these scenarios"}
	env.Emit(res)
}
