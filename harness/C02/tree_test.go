package core

// C02 tree part: BFS over histories on the real GroupQuotaManager where RefreshRuntime(x) is itself an event (so
// that stale version stamps and lazily cached runtime values are part of the explored state). Oracle after every
// event, for every live quota x: RefreshRuntime(x) on the incrementally maintained manager equals RefreshRuntime(x)
// on a fresh manager built from the same final objects ("the division is a pure function of the inputs"), and the
// siblings' runtimes obey the property-level clauses (bounds, conservation) with respect to their parent's runtime.
// Reuses the quota/pod helpers of the C01 harness (same package).

import (
	"fmt"
	"os"
	"sort"
	"strings"
	"testing"

	"github.com/koordinator-sh/koordinator/apis/extension"
	"github.com/koordinator-sh/koordinator/pkg/zzverif/mc"
)

type c02TreeSys struct {
	*c01Sys
	nodes2 bool
}

func (s *c02TreeSys) liveQuotas() []string {
	var out []string
	for _, qn := range s.cfg.qnames {
		if _, ok := s.quotas[qn]; ok {
			out = append(out, qn)
		}
	}
	return out
}

func (s *c02TreeSys) freshManager() *GroupQuotaManager {
	fresh := c01NewGQM()
	if s.nodes["n1"] {
		fresh.OnNodeAdd(c01NodeObj("n1"))
	}
	if s.nodes2 {
		fresh.OnNodeAdd(c02Node2())
	}
	done := map[string]bool{}
	for len(done) < len(s.quotas) {
		progress := false
		for _, qn := range s.cfg.qnames {
			q, ok := s.quotas[qn]
			if !ok || done[qn] {
				continue
			}
			if q.Parent == extension.RootQuotaName || done[q.Parent] {
				_ = fresh.UpdateQuota(q.obj())
				done[qn] = true
				progress = true
			}
		}
		if !progress {
			break
		}
	}
	pn := make([]string, 0, len(s.pods))
	for n := range s.pods {
		pn = append(pn, n)
	}
	sort.Strings(pn)
	for _, n := range pn {
		p := s.pods[n]
		fresh.OnPodAdd(p.group, p.obj)
		if p.assigned && p.obj.Spec.NodeName == "" {
			fresh.ReservePod(p.group, p.obj)
		}
	}
	return fresh
}

func c02Node2() *corev1Node { return c01NodeObjCap("n2", c01Vec{3, 5}) }

func (s *c02TreeSys) Invariants() (viol []mc.Violation) {
	if os.Getenv("C02_DEBUG") != "" && strings.HasPrefix(s.last, "refreshRuntime") {
		defer func() {
			fmt.Printf("DEBUG hist-end %s viol=%d quotas=%v nodes=%v\n", s.last, len(viol), s.liveQuotas(), s.nodes)
		}()
	}
	after := strings.SplitN(s.last, "(", 2)[0]
	fresh := s.freshManager()
	live := s.liveQuotas()
	rt := map[string]c01Vec{}
	// refresh order must not matter either: probe in reverse alphabetical order on the live manager and in
	// alphabetical order on the fresh one
	for i := len(live) - 1; i >= 0; i-- {
		rt[live[i]] = c01FromRL(s.gqm.RefreshRuntime(live[i]))
	}
	for _, qn := range live {
		want := c01FromRL(fresh.RefreshRuntime(qn))
		if rt[qn] != want {
			viol = append(viol, mc.Violation{Key: "C02|tree|differs-from-fresh|after:" + after,
				What: fmt.Sprintf("[%s] RefreshRuntime(%s) = %v on the incrementally maintained manager but %v on a fresh manager built from the same final objects (cpu milli, memory)", s.cfg.name, qn, rt[qn], want)})
		}
	}
	// property-level clauses per sibling set
	obs, _ := c01Observe(s.gqm)
	parents := map[string][]string{}
	for _, qn := range live {
		parents[s.quotas[qn].Parent] = append(parents[s.quotas[qn].Parent], qn)
	}
	for parent, kids := range parents {
		var total c01Vec
		if parent == extension.RootQuotaName {
			total = c01FromRL(s.gqm.RefreshRuntime(extension.RootQuotaName))
		} else if _, ok := s.quotas[parent]; ok {
			total = rt[parent]
		} else {
			continue
		}
		var sum, sumMin c01Vec
		unsatisfied := [2]bool{}
		for _, k := range kids {
			q := s.quotas[k]
			req := obs[k].request.min(q.Max.milli()) // the request a quota passes upwards is max-limited
			min := q.Min.milli()
			for d := 0; d < 2; d++ {
				lo, hi := req[d], min[d]
				if lo > hi {
					lo, hi = hi, lo
				}
				if rt[k][d] < lo || rt[k][d] > hi {
					viol = append(viol, mc.Violation{Key: "C02|tree|bounds|after:" + after,
						What: fmt.Sprintf("[%s] runtime of %s in dimension %d is %d, outside [min(request,min)=%d, max(request,min)=%d]", s.cfg.name, k, d, rt[k][d], lo, hi)})
				}
				if rt[k][d] < req[d] {
					unsatisfied[d] = true
				}
			}
			sum = sum.add(rt[k])
			sumMin = sumMin.add(min)
		}
		for d := 0; d < 2; d++ {
			if sumMin[d] <= total[d] && sum[d] > total[d] {
				viol = append(viol, mc.Violation{Key: "C02|tree|conservation|after:" + after,
					What: fmt.Sprintf("[%s] children %v of %s get %d in dimension %d, the parent has %d and the minimums (%d) fit", s.cfg.name, kids, parent, sum[d], d, total[d], sumMin[d])})
			}
			if unsatisfied[d] && sum[d] < total[d] {
				// every child has a positive shared weight in this alphabet (defaulted from max)
				viol = append(viol, mc.Violation{Key: "C02|tree|work-conservation|after:" + after,
					What: fmt.Sprintf("[%s] children %v of %s get %d of %d in dimension %d although one of them is below its request", s.cfg.name, kids, parent, sum[d], total[d], d)})
			}
		}
	}
	return viol
}

var c02TreeDumper = &mc.Dumper{SkipFields: map[string]bool{
	// monotone version stamps are only ever compared for equality (quota's stamp vs its parent calculator's stamp);
	// the key carries exactly those booleans instead (see Key), so states with different absolute stamps but the
	// same staleness pattern merge - their futures are identical.
	"QuotaInfo.RuntimeVersion": true, "RuntimeQuotaCalculator.globalRuntimeVersion": true,
	"PodInfo.pod": true,
}}

func (s *c02TreeSys) Key() string {
	var sb strings.Builder
	for _, qn := range s.liveQuotas() {
		qi := s.gqm.quotaInfoMap[qn]
		calc := s.gqm.runtimeQuotaCalculatorMap[qi.ParentName]
		fresh := calc != nil && qi.RuntimeVersion == calc.globalRuntimeVersion
		fmt.Fprintf(&sb, "%s:stampFresh=%v;", qn, fresh)
	}
	for _, pn := range []string{"p1", "p2", "p3"} {
		if p, ok := s.pods[pn]; ok {
			fmt.Fprintf(&sb, "%s=%s,%v,%v;", pn, p.group, p.req, p.assigned)
		}
	}
	fmt.Fprintf(&sb, "%v|%v", s.nodes["n1"], s.nodes2)
	return c02TreeDumper.Digest(s.gqm, sb.String())
}

func TestVerifC02Tree(t *testing.T) {
	env := mc.LoadEnv()
	root := extension.RootQuotaName
	tree := map[string][]c01QSpec{
		"P": {{"P", root, true, true, c01Vec{8, 8}, c01Vec{4, 4}}, {"P", root, true, true, c01Vec{6, 6}, c01Vec{2, 2}}},
		"A": {{"A", "P", false, true, c01Vec{6, 6}, c01Vec{2, 2}}, {"A", "P", false, false, c01Vec{4, 4}, c01Vec{3, 1}}},
		"B": {{"B", "P", false, true, c01Vec{8, 4}, c01Vec{1, 1}}, {"B", "P", false, true, c01Vec{3, 3}, c01Vec{0, 0}}},
		"C": {{"C", root, false, true, c01Vec{8, 8}, c01Vec{2, 2}}},
	}
	cfg := &c01Cfg{name: "tree-refresh", pods: env.Pick(2, 3), groups: []string{"A", "B", "C"}, variants: tree, qnames: []string{"P", "A", "B", "C"}}
	base := c01BuildOps(cfg)
	// keep only the events that change what the division depends on (requests, min/max, tree, total)
	var ops []c01Op
	for _, o := range base {
		n := o.name
		if strings.HasPrefix(n, "podMove") || strings.HasPrefix(n, "migrate") || strings.HasPrefix(n, "podBound") || strings.HasPrefix(n, "unreserve") ||
			strings.HasPrefix(n, "reserve") || strings.Contains(n, "bound=true") || strings.HasPrefix(n, "resetQuota") {
			continue
		}
		ops = append(ops, o)
	}
	for _, qn := range cfg.qnames {
		qn := qn
		ops = append(ops, c01Op{name: "refreshRuntime(" + qn + ")",
			enabled: func(s *c01Sys) bool { _, ok := s.quotas[qn]; return ok && s.last != "refreshRuntime("+qn+")" },
			apply:   func(s *c01Sys) { s.gqm.RefreshRuntime(qn) }})
	}
	nodes2 := map[*c01Sys]*c02TreeSys{}
	_ = nodes2
	res := mc.NewResult("C02", "tree-refresh", "bfs")
	res.Rule = fmt.Sprintf("BFS over all sequences of the %d-event alphabet (quota create/update/delete incl. min/max/lend changes, pod add/delete/request change, node add/delete = total change, RefreshRuntime(x) for every quota) on the real GroupQuotaManager; state = deep dump of the manager with version stamps replaced by their staleness booleans", len(ops)+2)
	res.Assumptions = []string{"quota tree structurally well-formed (webhook); shared weights default to max (positive)"}
	newSys := func() mc.System {
		s := &c02TreeSys{c01Sys: c01NewSys(cfg, nil)}
		all := append([]c01Op{}, ops...)
		all = append(all,
			c01Op{name: "nodeAdd(n2)", enabled: func(*c01Sys) bool { return !s.nodes2 }, apply: func(b *c01Sys) { b.gqm.OnNodeAdd(c02Node2()); s.nodes2 = true }},
			c01Op{name: "nodeDelete(n2)", enabled: func(*c01Sys) bool { return s.nodes2 }, apply: func(b *c01Sys) { b.gqm.OnNodeDelete(c02Node2()); s.nodes2 = false }},
		)
		s.ops = all
		return s
	}
	probe := newSys().(*c02TreeSys)
	b := &mc.BFS{Res: res, Env: env, New: newSys, NumOps: len(probe.ops),
		OpName: func(i int) string { return probe.ops[i].name }, MaxDepth: env.Pick(5, 6), Repeats: 1, KeysMustAgree: false}
	b.Run()
	env.Emit(res)
}
