package core

// C02 tree part: BFS over histories on the real GroupQuotaManager where RefreshRuntime(x) is itself an event (so
// that stale version stamps and lazily cached runtime values are part of the explored state). Oracle after every
// event, for every live quota x: RefreshRuntime(x) on the incrementally maintained manager equals RefreshRuntime(x)
// on a fresh manager built from the same final objects ("the division is a pure function of the inputs"), and the
// siblings' runtimes obey the property-level clauses (bounds, conservation) with respect to their parent's runtime.
// Reuses the quota/pod helpers of the C01 harness (same package).

import (
	"fmt"
	"os"
	"sort"
	"strings"
	"sync"
	"testing"

	"k8s.io/apimachinery/pkg/api/resource"

	"github.com/koordinator-sh/koordinator/apis/extension"
	"github.com/koordinator-sh/koordinator/pkg/zzverif/mc"
)

type c02TreeSys struct {
	*c01Sys
	nodes2 bool
	scale  bool // min-quota scaling enabled (minimums that do not fit their parent are scaled down proportionally)
	res    *mc.Result
	lim    *c02Limiter
	hist   []byte
}

// c02Limiter bounds the number of violating histories reported per key (the engine re-executes every reported
// violation several times, serially): the first 8 distinct histories of a key are reported - and reported again when
// the engine replays them -, the rest is only counted.
type c02Limiter struct {
	mu   sync.Mutex
	seen map[string]map[string]bool
}

// diagOnce tells whether the history may be reported as a diagnostic of the kind (the first two histories per kind, once).
func (l *c02Limiter) diagOnce(kind, hist string) bool {
	l.mu.Lock()
	defer l.mu.Unlock()
	if l.seen["diag|"+kind] == nil {
		l.seen["diag|"+kind] = map[string]bool{}
	}
	if l.seen["diag|"+kind][hist] || len(l.seen["diag|"+kind]) >= 2 {
		return false
	}
	l.seen["diag|"+kind][hist] = true
	return true
}

func (l *c02Limiter) admit(key, hist string) bool {
	l.mu.Lock()
	defer l.mu.Unlock()
	if l.seen[key] == nil {
		l.seen[key] = map[string]bool{}
	}
	if l.seen[key][hist] {
		return true
	}
	if len(l.seen[key]) >= 8 {
		return false
	}
	l.seen[key][hist] = true
	return true
}

func (s *c02TreeSys) Apply(op int, check bool) (bool, []mc.Violation) {
	en, v := s.c01Sys.Apply(op, check)
	if en {
		s.hist = append(s.hist, byte(op))
	}
	return en, v
}

func c02NewGQM(scale bool) *GroupQuotaManager {
	return NewGroupQuotaManager("", scale, c01RL(c01Vec{c01Huge, c01Huge}), c01RL(c01Vec{c01Huge, c01Huge}))
}

func (s *c02TreeSys) liveQuotas() []string {
	var out []string
	for _, qn := range s.cfg.qnames {
		if _, ok := s.quotas[qn]; ok {
			out = append(out, qn)
		}
	}
	return out
}

// lostAllNodes: no node now, but the manager saw one (its total carries explicit zeros).
func (s *c02TreeSys) lostAllNodes() bool {
	return !s.nodes["n1"] && !s.nodes2 && len(s.gqm.totalResource) > 0
}

func (s *c02TreeSys) freshManager(explicitZeroTotal bool) *GroupQuotaManager {
	fresh := c02NewGQM(s.scale)
	if explicitZeroTotal {
		// Assumption of the scale configurations (spec.json): "no node now" after a node was seen leaves a total of
		// explicit zeros, a manager that never saw a node has a total without any dimension, and the scaling only looks
		// at the dimensions the total carries (so the former scales every minimum to 0 and the latter scales nothing).
		// Whether the cluster ever had a node is therefore part of "the inputs" here; both situations are explored, each
		// is compared with a fresh manager in the same situation, and how often the two situations settle differently is
		// measured (counter states_lost_all_nodes_differs_from_never_had_a_node, diagnostics).
		fresh.OnNodeAdd(c01NodeObj("n1"))
		fresh.OnNodeDelete(c01NodeObj("n1"))
	}
	if s.nodes["n1"] {
		fresh.OnNodeAdd(c01NodeObj("n1"))
	}
	if s.nodes2 {
		fresh.OnNodeAdd(c02Node2())
	}
	done := map[string]bool{}
	for len(done) < len(s.quotas) {
		progress := false
		for _, qn := range s.cfg.qnames {
			q, ok := s.quotas[qn]
			if !ok || done[qn] {
				continue
			}
			if q.Parent == extension.RootQuotaName || done[q.Parent] {
				_ = fresh.UpdateQuota(q.obj())
				done[qn] = true
				progress = true
			}
		}
		if !progress {
			break
		}
	}
	pn := make([]string, 0, len(s.pods))
	for n := range s.pods {
		pn = append(pn, n)
	}
	sort.Strings(pn)
	for _, n := range pn {
		p := s.pods[n]
		fresh.OnPodAdd(p.group, p.obj)
		if p.assigned && p.obj.Spec.NodeName == "" {
			fresh.ReservePod(p.group, p.obj)
		}
	}
	return fresh
}

func c02Node2() *corev1Node { return c01NodeObjCap("n2", c01Vec{3, 5}) }

// c02Settle refreshes every quota of order, round after round, until a round returns exactly what the previous one
// returned (then the last round is the fixpoint) or maxRounds rounds were made. With maxRounds == 1 it is the single
// probe of the configuration without scaling.
func c02Settle(g *GroupQuotaManager, order []string, maxRounds int) (rounds []map[string]c01Vec, converged bool) {
	for r := 0; r < maxRounds; r++ {
		cur := map[string]c01Vec{}
		for _, qn := range order {
			cur[qn] = c01FromRL(g.RefreshRuntime(qn))
		}
		rounds = append(rounds, cur)
		if r > 0 {
			same := true
			for _, qn := range order {
				if rounds[r-1][qn] != cur[qn] {
					same = false
				}
			}
			if same {
				return rounds, true
			}
		}
	}
	return rounds, maxRounds == 1
}

// c02StaleNonLendRequest names the non-lending quotas whose request inside their parent's calculator (the figure the
// division really uses) is below the request the manager itself reports for them (white-box; only used to LABEL a
// violation with its root cause, never to raise or to drop one).
func c02StaleNonLendRequest(g *GroupQuotaManager, live []string) []string {
	var out []string
	for _, qn := range live {
		qi := g.quotaInfoMap[qn]
		if qi == nil || qi.AllowLentResource {
			continue
		}
		calc := g.runtimeQuotaCalculatorMap[qi.ParentName]
		if calc == nil {
			continue
		}
		lim := qi.getLimitRequestNoLock()
		for res, tree := range calc.quotaTree {
			if ok, n := tree.find(qn); ok && n.request < getQuantityValue(*lim.Name(res, resource.DecimalSI), res) {
				out = append(out, qn)
				break
			}
		}
	}
	return out
}

const c02MaxRounds = 6

func (s *c02TreeSys) histNames() []string {
	out := make([]string, len(s.hist))
	for i, o := range s.hist {
		out[i] = s.ops[o].name
	}
	return out
}

func (s *c02TreeSys) count(name string) {
	if s.res != nil {
		s.res.Count(name, 1)
	}
}

func (s *c02TreeSys) Invariants() []mc.Violation {
	viol := s.invariants()
	if s.lim == nil {
		return viol
	}
	out := viol[:0]
	for _, v := range viol {
		if s.lim.admit(v.Key, string(s.hist)) {
			out = append(out, v)
		} else {
			s.res.Count("violations_beyond_8_histories_per_key_only_counted", 1)
		}
	}
	return out
}

func (s *c02TreeSys) invariants() (viol []mc.Violation) {
	if os.Getenv("C02_DEBUG") != "" && strings.HasPrefix(s.last, "refreshRuntime") {
		defer func() {
			fmt.Printf("DEBUG hist-end %s viol=%d quotas=%v nodes=%v\n", s.last, len(viol), s.liveQuotas(), s.nodes)
		}()
	}
	after := strings.SplitN(s.last, "(", 2)[0]
	lost := s.scale && s.lostAllNodes()
	fresh := s.freshManager(lost)
	live := s.liveQuotas()
	rev := make([]string, 0, len(live))
	for i := len(live) - 1; i >= 0; i-- {
		rev = append(rev, live[i])
	}
	maxRounds := 1
	if s.scale {
		maxRounds = c02MaxRounds
	}
	// refresh order must not matter either: probe in reverse alphabetical order on the live manager and in
	// alphabetical order on the fresh one
	lr, lok := c02Settle(s.gqm, rev, maxRounds)
	fr, fok := c02Settle(fresh, live, maxRounds)
	rt, want := lr[len(lr)-1], fr[len(fr)-1]
	stale := map[string]bool{} // see c02StaleNonLendRequest; only labels violations
	if s.scale {
		s.res.MaxCounter("max_rounds_to_fixpoint", int64(len(lr)))
		s.res.MaxCounter("max_rounds_to_fixpoint", int64(len(fr)))
		if len(lr) > 2 {
			// Not a violation: the scaled min of a quota is brought up to date only when that quota itself is refreshed, so
			// after the parent's runtime changed the first refresh of a quota still divides with its siblings' old scaled
			// minimums; refreshing every quota once more (the quota controller refreshes every leaf quota every 10 s) settles it.
			s.count("states_first_round_not_yet_fixpoint")
			if s.lim.diagOnce("transient", string(s.hist)) {
				s.res.Diag(fmt.Sprintf("transient (not judged): after %v the first round of refreshes returns %v, the fixpoint is %v", s.histNames(), lr[0], rt))
			}
		}
		for who, ok := range map[string]bool{"incrementally maintained": lok, "fresh": fok} {
			if !ok {
				viol = append(viol, mc.Violation{Key: "C02|tree|scalemin|no-fixpoint|after:" + after,
					What: fmt.Sprintf("[%s] refreshing every quota %d rounds on the %s manager never repeated a round: live rounds %v, fresh rounds %v", s.cfg.name, c02MaxRounds, who, lr, fr)})
			}
		}
		for _, qn := range append(c02StaleNonLendRequest(s.gqm, live), c02StaleNonLendRequest(fresh, live)...) {
			stale[qn] = true
		}
		if len(stale) > 0 {
			s.count("states_with_nonlend_request_not_pushed")
		}
	}
	// affected: the division that produced qn's runtime (its own sibling set or that of an ancestor) contains a
	// quota from the stale set
	affected := func(qn string) bool {
		for q, ok := s.quotas[qn]; ok; q, ok = s.quotas[q.Parent] {
			for _, sib := range live {
				if s.quotas[sib].Parent == q.Parent && stale[sib] {
					return true
				}
			}
		}
		return false
	}
	if lost {
		s.count("states_lost_all_nodes")
		nr, _ := c02Settle(s.freshManager(false), live, maxRounds)
		if never := nr[len(nr)-1]; fmt.Sprint(never) != fmt.Sprint(want) {
			s.count("states_lost_all_nodes_differs_from_never_had_a_node")
			if s.lim.diagOnce("lost-all-nodes", string(s.hist)) {
				s.res.Diag(fmt.Sprintf("assumption (not judged): after %v no node is left; a fresh manager that saw a node come and go settles at %v (every min scaled to the zero total), one that never saw a node at %v (total without dimensions: nothing scaled)", s.histNames(), want, never))
			}
		}
	}
	for _, qn := range live {
		if rt[qn] != want[qn] {
			key := "C02|tree|differs-from-fresh|after:" + after
			what := fmt.Sprintf("[%s] RefreshRuntime(%s) = %v on the incrementally maintained manager but %v on a fresh manager built from the same final objects (cpu milli, memory)", s.cfg.name, qn, rt[qn], want[qn])
			if s.scale {
				what += fmt.Sprintf("; both are fixpoints of refreshing every quota in rounds (live %d rounds: %v; fresh %d rounds: %v)", len(lr), lr, len(fr), fr)
				if affected(qn) {
					key = "C02|tree|scalemin|nonlend-request-not-pushed|differs-from-fresh"
				}
			}
			viol = append(viol, mc.Violation{Key: key, What: what})
		}
	}
	if s.scale {
		// the guaranteed (scaled) minimum the manager reports (QuotaInfoSummary.AutoScaleMin) is part of what the division
		// derives from the inputs: once settled it must not depend on the history either. This sees a stale scaled min
		// before a contended total makes it visible in a runtime.
		for _, qn := range live {
			ls, ok1 := s.gqm.GetQuotaSummary(qn, false)
			fs, ok2 := fresh.GetQuotaSummary(qn, false)
			if !ok1 || !ok2 {
				continue
			}
			s.count("scaled_min_comparisons")
			if a, b := c01FromRL(ls.AutoScaleMin), c01FromRL(fs.AutoScaleMin); a != b {
				viol = append(viol, mc.Violation{Key: "C02|tree|scaled-min-differs-from-fresh|after:" + after,
					What: fmt.Sprintf("[%s] after settling, the scaled min reported for %s is %v on the incrementally maintained manager but %v on a fresh manager built from the same final objects (declared min %v; settled runtimes live %v, fresh %v)", s.cfg.name, qn, a, b, s.quotas[qn].Min.nonneg().milli(), rt, want)})
			}
		}
	}
	s.count("fresh_comparisons")
	viol = append(viol, s.clauses(s.gqm, rt, live, "incrementally maintained", after)...)
	if s.scale {
		// the fresh manager is the real code on a legitimate history too (nodes, quotas top-down, pods)
		viol = append(viol, s.clauses(fresh, want, live, "fresh", after)...)
	}
	return viol
}

// clauses judges the property-level clauses per sibling set on manager g whose (settled) runtimes are rt.
func (s *c02TreeSys) clauses(g *GroupQuotaManager, rt map[string]c01Vec, live []string, who, after string) (viol []mc.Violation) {
	key := func(clause string) string { return "C02|tree|" + clause + "|after:" + after }
	staleHere := map[string]bool{}
	if s.scale {
		for _, qn := range c02StaleNonLendRequest(g, live) {
			staleHere[qn] = true
		}
	}
	obs, _ := c01Observe(g)
	parents := map[string][]string{}
	for _, qn := range live {
		parents[s.quotas[qn].Parent] = append(parents[s.quotas[qn].Parent], qn)
	}
	for parent, kids := range parents {
		var total c01Vec
		explicit := [2]bool{true, true} // the parent's total carries the dimension explicitly
		if parent == extension.RootQuotaName {
			rl := g.RefreshRuntime(extension.RootQuotaName)
			total = c01FromRL(rl)
			_, explicit[0] = rl["cpu"]
			_, explicit[1] = rl["memory"]
		} else if _, ok := s.quotas[parent]; ok {
			total = rt[parent]
		} else {
			continue
		}
		var sum, sumMin c01Vec
		unsatisfied := [2]bool{}
		scalable := true
		for _, k := range kids {
			sumMin = sumMin.add(s.quotas[k].Min.nonneg().milli())
			if !g.scaleMinQuotaManager.quotaEnableMinQuotaScaleMap[k] {
				scalable = false
			}
		}
		for _, k := range kids {
			q := s.quotas[k]
			req := obs[k].request.min(q.Max.milli()) // the request a quota passes upwards is max-limited
			min := q.Min.nonneg().milli()
			for d := 0; d < 2; d++ {
				lo, hi := req[d], min[d]
				if lo > hi {
					lo, hi = hi, lo
				}
				if s.scale && sumMin[d] > total[d] && explicit[d] {
					// min-quota scaling: minimums that do not fit the parent are reduced proportionally, so the guaranteed
					// minimum of the statement is the scaled one (floor(total*min/sum of minimums), one unit of slack).
					// (A total that does not carry the dimension at all - no node was ever seen - is not scaled against:
					// the plain bounds below apply.)
					if rt[k][d] > hi {
						viol = append(viol, mc.Violation{Key: key("bounds"),
							What: fmt.Sprintf("[%s, %s manager] runtime of %s in dimension %d is %d, above max(request,min)=%d", s.cfg.name, who, k, d, rt[k][d], hi)})
					}
					if scalable {
						scaled := total[d] * min[d] / sumMin[d]
						if total[d] < 0 {
							scaled = 0
						}
						lo = scaled
						if req[d] < lo {
							lo = req[d]
						}
						s.count("clause_scaled_lower_bound")
						if rt[k][d] < lo-1 {
							viol = append(viol, mc.Violation{Key: key("scaled-lower-bound"),
								What: fmt.Sprintf("[%s, %s manager] runtime of %s in dimension %d is %d, below min(request=%d, proportionally scaled min=%d) (parent %s has %d, sibling minimums sum to %d)", s.cfg.name, who, k, d, rt[k][d], req[d], scaled, parent, total[d], sumMin[d])})
						}
					}
				} else {
					s.count("clause_bounds")
					if rt[k][d] < lo || rt[k][d] > hi {
						viol = append(viol, mc.Violation{Key: key("bounds"),
							What: fmt.Sprintf("[%s, %s manager] runtime of %s in dimension %d is %d, outside [min(request,min)=%d, max(request,min)=%d]", s.cfg.name, who, k, d, rt[k][d], lo, hi)})
					}
				}
				if rt[k][d] < req[d] {
					unsatisfied[d] = true
				}
			}
			sum = sum.add(rt[k])
		}
		for d := 0; d < 2; d++ {
			if sumMin[d] <= total[d] {
				s.count("clause_conservation_minimums_fit")
				if sum[d] > total[d] {
					viol = append(viol, mc.Violation{Key: key("conservation"),
						What: fmt.Sprintf("[%s, %s manager] children %v of %s get %d in dimension %d, the parent has %d and the minimums (%d) fit", s.cfg.name, who, kids, parent, sum[d], d, total[d], sumMin[d])})
				}
			} else if s.scale && scalable && explicit[d] {
				// the scaled minimums fit by construction, so the siblings never get more than the parent has
				s.count("clause_conservation_minimums_scaled")
				if sum[d] > total[d] && sum[d] > 0 {
					viol = append(viol, mc.Violation{Key: key("scaled-conservation"),
						What: fmt.Sprintf("[%s, %s manager] min-quota scaling is on, yet children %v of %s get %d in dimension %d while the parent has only %d (unscaled minimums sum to %d) - runtimes %v", s.cfg.name, who, kids, parent, sum[d], d, total[d], sumMin[d], rt)})
				}
			} else if s.scale {
				s.count("clause_conservation_not_demanded_minimums_do_not_fit_a_total_without_the_dimension")
			}
			if unsatisfied[d] {
				s.count("clause_work_conservation")
			}
			if unsatisfied[d] && sum[d] < total[d] {
				// every child has a positive shared weight in this alphabet (defaulted from max)
				k := key("work-conservation")
				for _, kid := range kids {
					if staleHere[kid] {
						// a too small request inside the calculator can only lower runtimes: it explains idle capacity, never
						// a broken bound or sum (those keep their plain keys)
						k = "C02|tree|scalemin|nonlend-request-not-pushed|work-conservation"
					}
				}
				viol = append(viol, mc.Violation{Key: k,
					What: fmt.Sprintf("[%s, %s manager] children %v of %s get %d of %d in dimension %d although one of them is below its request - runtimes %v", s.cfg.name, who, kids, parent, sum[d], total[d], d, rt)})
			}
		}
	}
	return viol
}

var c02TreeDumper = &mc.Dumper{SkipFields: map[string]bool{
	// monotone version stamps are only ever compared for equality (quota's stamp vs its parent calculator's stamp);
	// the key carries exactly those booleans instead (see Key), so states with different absolute stamps but the
	// same staleness pattern merge - their futures are identical.
	"QuotaInfo.RuntimeVersion": true, "RuntimeQuotaCalculator.globalRuntimeVersion": true,
	"PodInfo.pod": true,
}}

func (s *c02TreeSys) Key() string {
	var sb strings.Builder
	for _, qn := range s.liveQuotas() {
		qi := s.gqm.quotaInfoMap[qn]
		calc := s.gqm.runtimeQuotaCalculatorMap[qi.ParentName]
		fresh := calc != nil && qi.RuntimeVersion == calc.globalRuntimeVersion
		fmt.Fprintf(&sb, "%s:stampFresh=%v;", qn, fresh)
	}
	for _, pn := range []string{"p1", "p2", "p3"} {
		if p, ok := s.pods[pn]; ok {
			fmt.Fprintf(&sb, "%s=%s,%v,%v;", pn, p.group, p.req, p.assigned)
		}
	}
	fmt.Fprintf(&sb, "%v|%v", s.nodes["n1"], s.nodes2)
	return c02TreeDumper.Digest(s.gqm, sb.String())
}

// c02TreeCfg is one configuration of the tree part.
type c02TreeCfg struct {
	part     string
	scale    bool                  // min-quota scaling (EnableMinQuotaScale, default true in the scheduler configuration)
	variants map[string][]c01QSpec // quota spec variants (create / update events)
	setup    []string              // events applied by New before the exploration starts (prebuilt initial state)
	depth    int
}

func TestVerifC02Tree(t *testing.T) {
	env := mc.LoadEnv()
	root := extension.RootQuotaName
	tree := map[string][]c01QSpec{
		"P": {{"P", root, true, true, c01Vec{8, 8}, c01Vec{4, 4}}, {"P", root, true, true, c01Vec{6, 6}, c01Vec{2, 2}}},
		"A": {{"A", "P", false, true, c01Vec{6, 6}, c01Vec{2, 2}}, {"A", "P", false, false, c01Vec{4, 4}, c01Vec{3, 1}},
			// ... the same non-lending quota whose min no longer declares memory at all (max still does): the request that was
			// raised to min loses that dimension (seed C02-8)
			{"A", "P", false, false, c01Vec{4, 4}, c01Vec{3, -1}}},
		"B": {{"B", "P", false, true, c01Vec{8, 4}, c01Vec{1, 1}}, {"B", "P", false, true, c01Vec{3, 3}, c01Vec{0, 0}}},
		"C": {{"C", root, false, true, c01Vec{8, 8}, c01Vec{2, 2}}},
	}
	// the scale configurations additionally let the top-level sibling C hold on to its minimum (non-lending), so that
	// the parent P gets less than the cluster total without any pod
	// ... and let B be re-parented to the root and back (the scaling manager keeps a children's-min sum per parent that
	// must follow the move: seed C02-4)
	treeScale := map[string][]c01QSpec{"P": tree["P"], "A": tree["A"],
		"B": {tree["B"][0], tree["B"][1], {"B", root, false, true, c01Vec{8, 4}, c01Vec{1, 1}}},
		"C": {tree["C"][0], {"C", root, false, false, c01Vec{8, 8}, c01Vec{2, 2}}}}
	name := func(q c01QSpec, vi int) string {
		return fmt.Sprintf("quota(%s:=v%d{parent=%s,isParent=%v,lend=%v,max=%v,min=%v})", q.Name, vi, q.Parent, q.IsParent, q.Lend, q.Max, q.Min)
	}
	cfgs := []c02TreeCfg{
		{part: "tree-refresh", variants: tree, depth: env.Pick(5, 6)},
		{part: "tree-refresh-scalemin", scale: true, variants: treeScale, depth: env.Pick(5, 6)},
		// the whole tree exists, every quota lends, two nodes (13 cpu / 15 memory): exploration of shrinking / growing
		// totals, requests and min changes around a tree that is in use
		{part: "tree-refresh-scalemin-prebuilt", scale: true, variants: treeScale, depth: env.Pick(4, 5),
			setup: []string{"nodeAdd(n1)", "nodeAdd(n2)", name(tree["P"][0], 0), name(tree["A"][0], 0), name(tree["B"][0], 0), name(tree["C"][0], 0)}},
	}
	for _, c := range cfgs {
		if only := os.Getenv("C02_TREE_ONLY"); only != "" && only != c.part {
			continue
		}
		c02RunTree(env, c)
	}
}

func c02RunTree(env *mc.Env, tc c02TreeCfg) {
	part, scale := tc.part, tc.scale
	cfg := &c01Cfg{name: part, pods: env.Pick(2, 3), groups: []string{"A", "B", "C"}, variants: tc.variants, qnames: []string{"P", "A", "B", "C"}}
	base := c01BuildOps(cfg)
	// keep only the events that change what the division depends on (requests, min/max, tree, total)
	var ops []c01Op
	for _, o := range base {
		n := o.name
		if strings.HasPrefix(n, "podMove") || strings.HasPrefix(n, "migrate") || strings.HasPrefix(n, "podBound") || strings.HasPrefix(n, "unreserve") ||
			strings.HasPrefix(n, "reserve") || strings.Contains(n, "bound=true") || strings.HasPrefix(n, "resetQuota") {
			continue
		}
		ops = append(ops, o)
	}
	for _, qn := range cfg.qnames {
		qn := qn
		ops = append(ops, c01Op{name: "refreshRuntime(" + qn + ")",
			enabled: func(s *c01Sys) bool { _, ok := s.quotas[qn]; return ok && s.last != "refreshRuntime("+qn+")" },
			apply:   func(s *c01Sys) { s.gqm.RefreshRuntime(qn) }})
	}
	res := mc.NewResult("C02", part, "bfs")
	res.Rule = fmt.Sprintf("BFS over all sequences of the %d-event alphabet (quota create/update/delete incl. min/max/lend changes, pod add/delete/request change, node add/delete = total change, RefreshRuntime(x) for every quota) on the real GroupQuotaManager; state = deep dump of the manager with version stamps replaced by their staleness booleans", len(ops)+2)
	res.Assumptions = []string{"quota tree structurally well-formed (webhook); shared weights default to max (positive)"}
	if scale {
		res.Rule += fmt.Sprintf("; min-quota scaling ENABLED (the scheduler's default): after every event every quota is refreshed in rounds until a round repeats (at most %d), on the incrementally maintained manager and on a fresh one; the two fixpoints (runtimes and reported scaled minimums) must agree, and each must obey per sibling set: runtime <= max(request,min), runtime >= min(request, min) where the minimums fit resp. >= min(request, proportionally scaled min) where they do not, siblings together <= parent in every dimension (the scaled minimums fit by construction), work conservation", c02MaxRounds)
		res.Assumptions = append(res.Assumptions, "scaling: a cluster that lost all its nodes (total of explicit zeros) is compared with a fresh manager that saw a node come and go, a cluster that never had a node (total without dimensions, nothing is scaled) with a fresh manager that never saw one")
	}
	if len(tc.setup) > 0 {
		res.Rule += fmt.Sprintf("; initial state = after the fixed prefix %v", tc.setup)
	}
	var lim *c02Limiter
	if scale {
		lim = &c02Limiter{seen: map[string]map[string]bool{}}
	}
	newSys := func() mc.System {
		s := &c02TreeSys{c01Sys: c01NewSys(cfg, nil), scale: scale, res: res, lim: lim}
		s.gqm = c02NewGQM(scale)
		all := append([]c01Op{}, ops...)
		all = append(all,
			c01Op{name: "nodeAdd(n2)", enabled: func(*c01Sys) bool { return !s.nodes2 }, apply: func(b *c01Sys) { b.gqm.OnNodeAdd(c02Node2()); s.nodes2 = true }},
			c01Op{name: "nodeDelete(n2)", enabled: func(*c01Sys) bool { return s.nodes2 }, apply: func(b *c01Sys) { b.gqm.OnNodeDelete(c02Node2()); s.nodes2 = false }},
		)
		s.ops = all
		for _, want := range tc.setup {
			done := false
			for i, o := range all {
				if o.name == want {
					if en, _ := s.Apply(i, false); !en {
						panic("c02: setup event not enabled: " + want)
					}
					done = true
				}
			}
			if !done {
				panic("c02: setup event not in the alphabet: " + want)
			}
		}
		if len(tc.setup) > 0 {
			s.last, s.hist = "setup", nil
		}
		return s
	}
	probe := newSys().(*c02TreeSys)
	b := &mc.BFS{Res: res, Env: env, New: newSys, NumOps: len(probe.ops),
		OpName: func(i int) string { return probe.ops[i].name }, MaxDepth: tc.depth, Repeats: 1, KeysMustAgree: false}
	b.Run()
	env.Emit(res)
}
