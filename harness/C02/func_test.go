package core

// C02 function part: exhaustive enumeration of sibling sets x totals on the real quotaTree.redistribution
// (and through it iterationForRedistribution / computeHamiltonDeltas). Oracle: property-level clauses in
// exact big-integer arithmetic, see /verif/DESIGN.md §4 C02.

import (
	"fmt"
	"hash/fnv"
	"math/big"
	"sort"
	"strings"
	"testing"

	"github.com/koordinator-sh/koordinator/pkg/zzverif/mc"
)

type c02Sib struct {
	Req, Min, Guar, W int64
	Lend              bool
}

type c02Case struct {
	Sibs  []c02Sib
	Total int64
}

func (c c02Case) String() string { return fmt.Sprintf("{sibs:%+v total:%d}", c.Sibs, c.Total) }

func c02Run(c c02Case, reverse bool) []int64 {
	qt := NewQuotaTree()
	n := len(c.Sibs)
	for k := 0; k < n; k++ {
		i := k
		if reverse {
			i = n - 1 - k
		}
		s := c.Sibs[i]
		qt.insert(fmt.Sprintf("q%d", i), s.W, s.Req, s.Min, s.Guar, s.Lend)
	}
	qt.redistribution(c.Total)
	out := make([]int64, n)
	for i := 0; i < n; i++ {
		out[i] = qt.quotaNodes[fmt.Sprintf("q%d", i)].runtimeQuota
	}
	return out
}

func bi(v int64) *big.Int { return big.NewInt(v) }

// c02Oracle returns the violated clause ("" if none), whether the case is non-trivial (some capacity was shared
// in the second phase) and the largest deviation from the ideal water-filling (in units, rounded up).
func c02Oracle(c c02Case, rt []int64) (clause, what string, nontrivial bool, dev int64) {
	n := len(c.Sibs)
	m := make([]int64, n)
	sumRT, sumLowest := new(big.Int), new(big.Int)
	unsatisfiedWeighted := false
	for i, s := range c.Sibs {
		m[i] = s.Min
		if s.Guar > m[i] {
			m[i] = s.Guar
		}
		lo, hi := s.Req, m[i]
		if lo > hi {
			lo, hi = hi, lo
		}
		if rt[i] < lo || rt[i] > hi {
			return "bounds", fmt.Sprintf("sibling %d got %d outside [min(req,m)=%d, max(req,m)=%d]", i, rt[i], lo, hi), false, 0
		}
		sumRT.Add(sumRT, bi(rt[i]))
		lowest := m[i]
		if s.Lend && s.Req < m[i] {
			lowest = s.Req
		}
		sumLowest.Add(sumLowest, bi(lowest))
		if rt[i] < s.Req && s.W > 0 {
			unsatisfiedWeighted = true
		}
		// "in proportion to their shared weights": the proportional share of a sibling with weight 0 is nothing, however
		// much is left (seed C02-5: an 'uncontended' fast path gave every borrower its request)
		if s.W == 0 && s.Req > m[i] && rt[i] > m[i] {
			return "zero-weight-share", fmt.Sprintf("sibling %d has shared weight 0 but got %d, above its guaranteed part %d", i, rt[i], m[i]), false, 0
		}
	}
	total := bi(c.Total)
	// conservation: nothing is created. The siblings together get at most the parent's amount, or exactly the
	// sum of their guaranteed parts when those alone already exceed it.
	limit := new(big.Int).Set(total)
	if sumLowest.Cmp(limit) > 0 {
		limit.Set(sumLowest)
	}
	if sumRT.Cmp(limit) > 0 {
		return "conservation", fmt.Sprintf("sum of runtime %s exceeds max(total=%s, sum of guaranteed parts=%s)", sumRT, total, sumLowest), false, 0
	}
	// work conservation: while a sibling with weight is unsatisfied nothing may be left over.
	if unsatisfiedWeighted && sumRT.Cmp(total) < 0 {
		return "work-conservation", fmt.Sprintf("sum of runtime %s < total %s although a weighted sibling is below its request", sumRT, total), false, 0
	}
	// fairness against the exact water-filling rt*_i = min(req_i, m_i + lambda*w_i)
	R := new(big.Int).Sub(total, sumLowest)
	if R.Sign() <= 0 {
		return "", "", false, 0
	}
	type cand struct {
		i    int
		need int64 // req - m
		w    int64
	}
	var cs []cand
	W := new(big.Int)
	for i, s := range c.Sibs {
		if s.Req > m[i] && s.W > 0 {
			cs = append(cs, cand{i, s.Req - m[i], s.W})
			W.Add(W, bi(s.W))
		}
	}
	if len(cs) == 0 {
		return "", "", false, 0
	}
	nontrivial = true
	// sort by need/w ascending (cross multiplication)
	sort.SliceStable(cs, func(a, b int) bool {
		l := new(big.Int).Mul(bi(cs[a].need), bi(cs[b].w))
		r := new(big.Int).Mul(bi(cs[b].need), bi(cs[a].w))
		return l.Cmp(r) < 0
	})
	k := 0
	for k < len(cs) {
		// capped iff need_k * W <= R * w_k
		l := new(big.Int).Mul(bi(cs[k].need), W)
		r := new(big.Int).Mul(R, bi(cs[k].w))
		if l.Cmp(r) <= 0 {
			// ideal share = need exactly
			d := rt[cs[k].i] - m[cs[k].i] - cs[k].need
			if d < 0 {
				d = -d
			}
			if d > dev {
				dev = d
			}
			R.Sub(R, bi(cs[k].need))
			W.Sub(W, bi(cs[k].w))
			k++
			continue
		}
		break
	}
	for ; k < len(cs); k++ {
		// ideal share = R*w/W ; deviation = |(rt-m)*W - R*w| / W rounded up
		num := new(big.Int).Mul(bi(rt[cs[k].i]-m[cs[k].i]), W)
		num.Sub(num, new(big.Int).Mul(R, bi(cs[k].w)))
		num.Abs(num)
		q, r := new(big.Int).QuoRem(num, W, new(big.Int))
		if r.Sign() > 0 {
			q.Add(q, bi(1))
		}
		if !q.IsInt64() {
			return "fairness", "deviation overflow", true, 0
		}
		if q.Int64() > dev {
			dev = q.Int64()
		}
	}
	if dev > int64(n)+1 {
		return "fairness", fmt.Sprintf("a sibling is %d units away from the exact weighted water-filling share (tolerance n+1=%d)", dev, n+1), true, dev
	}
	return "", "", true, dev
}

func c02Check(res *mc.Result, l *mc.Local, ds *mc.DistinctSet, c c02Case, repeats int) {
	l.Evals++
	var rt []int64
	if ps := mc.Guard(func() { rt = c02Run(c, false) }); ps != "" {
		res.Violate(mc.Violation{Key: "C02|func|panic", What: ps, Replay: c})
		return
	}
	clause, what, nontrivial, dev := c02Oracle(c, rt)
	if clause != "" {
		res.Violate(mc.Violation{Key: "C02|func|" + clause, What: fmt.Sprintf("%s; case %v runtime %v", what, c, rt), Replay: c})
		return
	}
	l.Max("max_deviation_from_waterfilling_units", dev)
	if nontrivial {
		l.Count("shared_phase_exercised", 1)
		h := fnv.New64a()
		for _, s := range c.Sibs {
			fmt.Fprint(h, s.Req, s.Min, s.Guar, s.W, s.Lend, ";")
		}
		fmt.Fprint(h, c.Total, rt)
		ds.AddHash(h.Sum64())
	}
	for r := 0; r < repeats; r++ {
		rt2 := c02Run(c, r%2 == 0)
		for i := range rt {
			if rt[i] != rt2[i] {
				res.Violate(mc.Violation{Key: "C02|func|order-dependent", What: fmt.Sprintf("case %v: %v vs %v under another insertion/iteration order", c, rt, rt2), Replay: c})
				return
			}
		}
	}
}

func c02Totals(c *c02Case, extra []int64) []int64 {
	var sumM, sumReq, sumLowest int64
	for _, s := range c.Sibs {
		m := s.Min
		if s.Guar > m {
			m = s.Guar
		}
		sumM += m
		sumReq += s.Req
		if s.Lend && s.Req < m {
			sumLowest += s.Req
		} else {
			sumLowest += m
		}
	}
	set := map[int64]bool{}
	for _, t := range extra {
		set[t] = true
	}
	for _, t := range []int64{sumM - 1, sumM, sumM + 1, sumLowest + 1, sumLowest + 2, sumLowest + 3, sumReq - 1, sumReq, sumReq + 1} {
		if t >= 0 {
			set[t] = true
		}
	}
	out := make([]int64, 0, len(set))
	for t := range set {
		out = append(out, t)
	}
	sort.Slice(out, func(i, j int) bool { return out[i] < out[j] })
	return out
}

func TestVerifC02Func(t *testing.T) {
	env := mc.LoadEnv()
	if part, ok := func() (string, bool) {
		var c c02Case
		p, ok := env.ReplayData(&c)
		_ = p
		if ok {
			rt := c02Run(c, false)
			cl, what, _, _ := c02Oracle(c, rt)
			fmt.Printf("REPLAY case=%v runtime=%v clause=%q %s\n", c, rt, cl, what)
		}
		return p, ok
	}(); ok {
		_ = part
		return
	}
	type alpha struct {
		name              string
		n                 int
		req, min, guar, w []int64
		totals            []int64
		repeats           int
	}
	small := []int64{0, 1, 2, 3, 5, 7}
	var alphas []alpha
	alphas = append(alphas,
		alpha{"small-n1", 1, append(small, 10), append(small, 10), []int64{0, 4}, []int64{0, 1, 2, 3, 7}, []int64{0, 1, 2, 3, 4, 5, 6, 7, 8, 9, 10, 11, 12}, 2},
		alpha{"small-n2", 2, small, small, []int64{0, 4}, []int64{0, 1, 2, 3, 7}, []int64{0, 1, 2, 3, 4, 5, 6, 7, 8, 9, 10, 11, 12}, 2},
	)
	if env.Thorough() {
		alphas = append(alphas,
			alpha{"small-n3", 3, []int64{0, 1, 2, 5, 7}, []int64{0, 1, 3, 5}, []int64{0, 4}, []int64{0, 1, 2, 3, 7}, []int64{0, 1, 2, 3, 5, 7, 8, 11, 12, 13}, 2},
			alpha{"small-n4", 4, []int64{0, 2, 7}, []int64{0, 1, 3}, []int64{0}, []int64{0, 1, 3}, []int64{0, 1, 5, 7, 11, 13}, 1},
		)
	} else {
		alphas = append(alphas,
			alpha{"small-n3", 3, []int64{0, 2, 5, 7}, []int64{0, 1, 3}, []int64{0, 4}, []int64{0, 1, 2, 3}, []int64{0, 1, 3, 7, 11, 12}, 1},
		)
	}
	// 64-bit-scale magnitudes: the 128-bit path of the largest-remainder split is enumerated, not sampled.
	bigV := []int64{0, 1, 1 << 31, 1<<40 + 1, 1<<53 + 1, 1<<61 - 1, 1 << 61}
	bigW := []int64{1, 3, 1<<40 + 1, 1 << 61}
	bigT := []int64{1, 1<<53 + 1, 1<<62 - 1, 1 << 62, 1<<62 + 12345}
	alphas = append(alphas, alpha{"large-n2", 2, bigV, []int64{0, 1 << 31, 1<<53 + 1}, []int64{0}, bigW, bigT, 1})
	if env.Thorough() {
		alphas = append(alphas, alpha{"large-n3", 3, bigV, []int64{0, 1<<53 + 1}, []int64{0}, bigW, bigT, 1})
	} else {
		alphas = append(alphas, alpha{"large-n3", 3, []int64{1, 1<<40 + 1, 1<<53 + 1, 1 << 61}, []int64{0, 1<<40 + 1}, []int64{0}, []int64{1, 3, 1<<40 + 1}, bigT, 1})
	}
	sort.SliceStable(alphas, func(i, j int) bool {
		return strings.HasPrefix(alphas[i].name, "large") && !strings.HasPrefix(alphas[j].name, "large")
	})
	for _, a := range alphas {
		res := mc.NewResult("C02", "func-"+a.name, "enumeration")
		ds := mc.NewDistinctSet()
		per := len(a.req) * len(a.min) * len(a.guar) * len(a.w) * 2
		dims := make([]int, a.n)
		for i := range dims {
			dims[i] = per
		}
		rx := mc.Radix{Dims: dims}
		decode := func(code int) c02Sib {
			s := c02Sib{}
			s.Req = a.req[code%len(a.req)]
			code /= len(a.req)
			s.Min = a.min[code%len(a.min)]
			code /= len(a.min)
			s.Guar = a.guar[code%len(a.guar)]
			code /= len(a.guar)
			s.W = a.w[code%len(a.w)]
			code /= len(a.w)
			s.Lend = code == 1
			return s
		}
		done, complete := env.ParallelRangeL(res, rx.Size(), func(l *mc.Local, i int64) {
			d := rx.Decode(i, make([]int, 0, 4))
			c := c02Case{Sibs: make([]c02Sib, a.n)}
			for k := range d {
				c.Sibs[k] = decode(d[k])
			}
			for _, tot := range c02Totals(&c, a.totals) {
				c.Total = tot
				cc := c02Case{Sibs: append([]c02Sib{}, c.Sibs...), Total: tot}
				c02Check(res, l, ds, cc, a.repeats)
			}
			if i%200003 == 0 {
				res.Sample(fmt.Sprintf("%v -> %v", c, c02Run(c, false)))
			}
		})
		res.Traces = res.Evaluations
		res.Distinct = ds.Len()
		res.Exhaustive = complete
		if !complete {
			res.Capped = fmt.Sprintf("time budget hit after %d of %d sibling tuples", done, rx.Size())
		}
		res.Rule = fmt.Sprintf("every ordered tuple of %d siblings over request%v x min%v x guarantee%v x weight%v x lend{y,n}, each with totals %v plus {sum(min)-1..+1, sum(guaranteed part)+1..3, sum(req)-1..+1}; non-trivial = capacity is shared in the weighted phase; distinct = distinct (input, result) among those", a.n, a.req, a.min, a.guar, a.w, a.totals)
		res.Bounds = map[string]any{"siblings": a.n, "tuples": rx.Size(), "map_order_repeats": a.repeats}
		env.Emit(res)
	}
}
