package mc

import (
	"bufio"
	"crypto/sha256"
	"encoding/hex"
	"fmt"
	"reflect"
	"sort"
	"strings"

	"k8s.io/apimachinery/pkg/api/resource"
)

var quantityType = reflect.TypeOf(resource.Quantity{})

// Dumper renders arbitrary Go values deterministically: maps in sorted key order, pointers followed with
// cycle detection, funcs/chans and synchronisation primitives skipped, resource.Quantity by canonical value.
// It reads unexported fields too. Only one harness thread runs at a time, so unlocked reads are safe.
type Dumper struct {
	// SkipFields lists "TypeName.Field" entries that are left out (with a written argument next to the use).
	SkipFields map[string]bool
	// SkipTypes lists type names (pkgpath.Name suffix match) that are left out entirely.
	SkipTypes []string
}

func (d *Dumper) Dump(v any) string {
	var sb strings.Builder
	d.dump(&sb, reflect.ValueOf(v), map[uintptr]bool{}, 0)
	return sb.String()
}

// sink is what dump writes to: a strings.Builder (Dump) or a buffered hasher (Digest).
type sink interface {
	WriteString(s string) (int, error)
	Write(p []byte) (int, error)
}

// Digest streams the same rendering as Dump into SHA-256 and returns the hex digest. It never materialises the
// (possibly tens of KB large) rendering, which keeps allocation - and Go heap-lock contention between the
// exploration workers - low. Use it for state keys.
func (d *Dumper) Digest(vs ...any) string {
	h := sha256.New()
	w := bufio.NewWriterSize(h, 4096)
	for _, v := range vs {
		if s, ok := v.(string); ok {
			w.WriteString(s)
		} else {
			d.dump(w, reflect.ValueOf(v), map[uintptr]bool{}, 0)
		}
		w.WriteString("|")
	}
	w.Flush()
	return hex.EncodeToString(h.Sum(nil)[:16])
}

func (d *Dumper) skipType(t reflect.Type) bool {
	p := t.PkgPath()
	if p == "sync" || p == "sync/atomic" || strings.HasSuffix(p, "/zzverif/mc/vsync") {
		return true
	}
	full := p + "." + t.Name()
	for _, s := range d.SkipTypes {
		if strings.HasSuffix(full, s) {
			return true
		}
	}
	return false
}

func (d *Dumper) dump(sb sink, v reflect.Value, seen map[uintptr]bool, depth int) {
	if !v.IsValid() {
		sb.WriteString("nil")
		return
	}
	if depth > 40 {
		sb.WriteString("<deep>")
		return
	}
	t := v.Type()
	if t == quantityType {
		var q resource.Quantity
		if v.CanInterface() {
			q = v.Interface().(resource.Quantity)
		} else if v.CanAddr() {
			q = *(*resource.Quantity)(v.Addr().UnsafePointer())
		} else {
			// map value reached through an unexported field: read the representation field by field
			iv := v.Field(0)
			dv := v.Field(1).Field(0)
			if dv.IsNil() {
				q = *resource.NewScaledQuantity(iv.Field(0).Int(), resource.Scale(iv.Field(1).Int()))
			} else {
				// *inf.Dec behind an unexported field: re-materialise it through NewAt so that its String method is
				// callable (no direct import of gopkg.in/inf.v0: that would make go rewrite /repo/go.mod)
				dec := reflect.NewAt(dv.Type().Elem(), dv.UnsafePointer()).Interface().(fmt.Stringer)
				q = resource.MustParse(dec.String())
			}
		}
		sb.WriteString(q.String())
		return
	}
	if d.skipType(t) {
		sb.WriteString("_")
		return
	}
	switch v.Kind() {
	case reflect.Ptr:
		if v.IsNil() {
			sb.WriteString("nil")
			return
		}
		p := v.Pointer()
		if seen[p] {
			sb.WriteString("<cycle>")
			return
		}
		seen[p] = true
		sb.WriteString("&")
		d.dump(sb, v.Elem(), seen, depth+1)
		delete(seen, p)
	case reflect.Interface:
		if v.IsNil() {
			sb.WriteString("nil")
			return
		}
		d.dump(sb, v.Elem(), seen, depth+1)
	case reflect.Struct:
		sb.WriteString(t.Name())
		sb.WriteString("{")
		for i := 0; i < v.NumField(); i++ {
			f := t.Field(i)
			if d.SkipFields[t.Name()+"."+f.Name] {
				continue
			}
			fv := v.Field(i)
			if fv.Kind() == reflect.Func || fv.Kind() == reflect.Chan || fv.Kind() == reflect.UnsafePointer {
				continue
			}
			if isZeroish(fv) {
				continue
			}
			sb.WriteString(f.Name)
			sb.WriteString(":")
			d.dump(sb, fv, seen, depth+1)
			sb.WriteString(",")
		}
		sb.WriteString("}")
	case reflect.Map:
		if v.Len() == 0 {
			sb.WriteString("{}")
			return
		}
		type kv struct {
			k string
			v reflect.Value
		}
		kvs := make([]kv, 0, v.Len())
		it := v.MapRange()
		for it.Next() {
			var ks strings.Builder
			d.dump(&ks, it.Key(), seen, depth+1)
			kvs = append(kvs, kv{ks.String(), it.Value()})
		}
		sort.Slice(kvs, func(i, j int) bool { return kvs[i].k < kvs[j].k })
		sb.WriteString("{")
		for _, e := range kvs {
			sb.WriteString(e.k)
			sb.WriteString("=")
			d.dump(sb, e.v, seen, depth+1)
			sb.WriteString(";")
		}
		sb.WriteString("}")
	case reflect.Slice, reflect.Array:
		if v.Kind() == reflect.Slice && v.IsNil() {
			sb.WriteString("[]")
			return
		}
		sb.WriteString("[")
		for i := 0; i < v.Len(); i++ {
			d.dump(sb, v.Index(i), seen, depth+1)
			sb.WriteString(",")
		}
		sb.WriteString("]")
	case reflect.String:
		fmt.Fprintf(sb, "%q", v.String())
	case reflect.Bool:
		fmt.Fprintf(sb, "%v", v.Bool())
	case reflect.Int, reflect.Int8, reflect.Int16, reflect.Int32, reflect.Int64:
		fmt.Fprintf(sb, "%d", v.Int())
	case reflect.Uint, reflect.Uint8, reflect.Uint16, reflect.Uint32, reflect.Uint64, reflect.Uintptr:
		fmt.Fprintf(sb, "%d", v.Uint())
	case reflect.Float32, reflect.Float64:
		fmt.Fprintf(sb, "%g", v.Float())
	case reflect.Func, reflect.Chan, reflect.UnsafePointer:
		sb.WriteString("_")
	default:
		fmt.Fprintf(sb, "<%s>", v.Kind())
	}
}

func isZeroish(v reflect.Value) bool {
	switch v.Kind() {
	case reflect.Ptr, reflect.Interface:
		return v.IsNil()
	case reflect.Map, reflect.Slice:
		return v.Len() == 0
	case reflect.String:
		return v.Len() == 0
	case reflect.Bool:
		return !v.Bool()
	case reflect.Int, reflect.Int8, reflect.Int16, reflect.Int32, reflect.Int64:
		return v.Int() == 0
	case reflect.Uint, reflect.Uint8, reflect.Uint16, reflect.Uint32, reflect.Uint64:
		return v.Uint() == 0
	}
	return false
}

// DumpDefault dumps with no exclusions.
func DumpDefault(v any) string { return (&Dumper{}).Dump(v) }
