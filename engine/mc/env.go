// Package mc is the hand-written bounded-exhaustive exploration engine used by the /verif harnesses.
// It is compiled into the koordinator module through `go test -overlay` under the virtual import path
// github.com/koordinator-sh/koordinator/pkg/zzverif/mc and never exists inside /repo.
package mc

import (
	"encoding/json"
	"flag"
	"os"
	"runtime"
	"runtime/debug"
	"sort"
	"strconv"
	"sync"
	"time"

	"github.com/go-logr/logr"
	"k8s.io/klog/v2"
)

// Env carries the run configuration handed over by /verif/bin/check through environment variables.
type Env struct {
	Tier    string
	Seed    int64
	Shard   int
	Shards  int
	Out     string
	Replay  string
	Workers int
	Budget  time.Duration
	start   time.Time

	mu    sync.Mutex
	parts []*Result
}

func atoi(s string, def int) int {
	if v, err := strconv.Atoi(s); err == nil {
		return v
	}
	return def
}

// LoadEnv reads VERIF_* variables; it also silences klog, which logs on hot paths of the code under check.
func LoadEnv() *Env {
	e := &Env{
		Tier:    os.Getenv("VERIF_TIER"),
		Out:     os.Getenv("VERIF_OUT"),
		Replay:  os.Getenv("VERIF_REPLAY"),
		Shard:   atoi(os.Getenv("VERIF_SHARD"), 0),
		Shards:  atoi(os.Getenv("VERIF_SHARDS"), 1),
		Workers: atoi(os.Getenv("VERIF_WORKERS"), runtime.NumCPU()),
		start:   time.Now(),
	}
	if e.Tier == "" {
		e.Tier = "quick"
	}
	if v, err := strconv.ParseInt(os.Getenv("VERIF_SEED"), 10, 64); err == nil {
		e.Seed = v
	}
	e.Budget = time.Duration(atoi(os.Getenv("VERIF_BUDGET_S"), 600)) * time.Second
	if e.Workers < 1 {
		e.Workers = 1
	}
	Quiet()
	// the code under check allocates heavily (ResourceList deep copies); with ample memory a lazier GC keeps the
	// exploration workers from serialising on the collector
	if os.Getenv("GOGC") == "" {
		debug.SetGCPercent(400)
	}
	return e
}

var quietOnce sync.Once

// Quiet discards klog output.
func Quiet() {
	quietOnce.Do(func() {
		klog.SetLogger(logr.Discard())
		fs := flag.NewFlagSet("klog", flag.ContinueOnError)
		klog.InitFlags(fs)
		_ = fs.Set("logtostderr", "false")
		_ = fs.Set("alsologtostderr", "false")
		_ = fs.Set("stderrthreshold", "FATAL")
		_ = fs.Set("v", "0")
	})
}

func (e *Env) Thorough() bool { return e.Tier == "thorough" }

// Pick returns q in the quick tier and t in the thorough tier.
func (e *Env) Pick(q, t int) int {
	if e.Thorough() {
		return t
	}
	return q
}

// Expired tells whether the internal wall-clock budget is used up. A deadline is never an alarm: explorers
// stop, report what they completed and mark the part exhaustive:false.
func (e *Env) Expired() bool { return time.Since(e.start) > e.Budget }

// Elapsed returns the time since the environment was loaded.
func (e *Env) Elapsed() time.Duration { return time.Since(e.start) }

// Mine tells whether work item i belongs to this shard.
func (e *Env) Mine(i int) bool { return e.Shards <= 1 || i%e.Shards == e.Shard }

// Violation is one property violation found on the real code.
type Violation struct {
	// Key identifies the witness class (used to match /verif/known_findings.json); it must be specific to the
	// failing input/call-site/history class, never just the property id.
	Key string `json:"key"`
	// What is a human readable description of the violated clause and the observed values.
	What string `json:"what"`
	// Replay is whatever the harness needs to re-execute exactly this case (op list, schedule, input).
	Replay any `json:"replay"`
	// Reproduced counts confirmations when the case was re-executed from its replay data.
	Reproduced string `json:"reproduced,omitempty"`
}

// Result is what one part of one harness reports.
type Result struct {
	Property     string           `json:"property"`
	Part         string           `json:"part"`
	Kind         string           `json:"kind"` // bfs | schedules | enumeration | faults
	States       int64            `json:"states"`
	Transitions  int64            `json:"transitions"`
	Traces       int64            `json:"traces"`
	Evaluations  int64            `json:"evaluations"`
	Distinct     int64            `json:"distinct_nontrivial"`
	MaxDepth     int              `json:"max_depth_completed"`
	Exhaustive   bool             `json:"exhaustive"`
	Capped       string           `json:"capped,omitempty"`
	Rule         string           `json:"rule"`
	Bounds       map[string]any   `json:"bounds,omitempty"`
	Samples      []any            `json:"samples"`
	Violations   []Violation      `json:"violations"`
	Unreproduced []Violation      `json:"unreproduced,omitempty"`
	Counters     map[string]int64 `json:"counters,omitempty"`
	Diagnostics  []string         `json:"diagnostics,omitempty"`
	Assumptions  []string         `json:"assumptions,omitempty"`
	WallS        float64          `json:"wall_s"`

	mu       sync.Mutex
	violKeys map[string]int
}

// NewResult creates a part result.
func NewResult(property, part, kind string) *Result {
	return &Result{Property: property, Part: part, Kind: kind, Counters: map[string]int64{}, violKeys: map[string]int{}}
}

// Count adds n to a named vacuity / coverage counter (goroutine safe).
func (r *Result) Count(name string, n int64) {
	r.mu.Lock()
	r.Counters[name] += n
	r.mu.Unlock()
}

// MaxCounter raises a named counter to v when v is larger.
func (r *Result) MaxCounter(name string, v int64) {
	r.mu.Lock()
	if r.Counters[name] < v {
		r.Counters[name] = v
	}
	r.mu.Unlock()
}

// Sample stores up to 6 example cases.
func (r *Result) Sample(s any) {
	r.mu.Lock()
	if len(r.Samples) < 6 {
		r.Samples = append(r.Samples, s)
	}
	r.mu.Unlock()
}

// Diag records a diagnostic that never alarms.
func (r *Result) Diag(s string) {
	r.mu.Lock()
	if len(r.Diagnostics) < 20 {
		r.Diagnostics = append(r.Diagnostics, s)
	}
	r.mu.Unlock()
}

// Violate records a violation; at most 3 witnesses are kept per key, the total per key is counted.
func (r *Result) Violate(v Violation) {
	r.mu.Lock()
	defer r.mu.Unlock()
	r.violKeys[v.Key]++
	r.Counters["violations_total"]++
	if r.violKeys[v.Key] <= 3 && len(r.Violations) < 60 {
		r.Violations = append(r.Violations, v)
	}
}

// NumViolations returns the number of recorded violations.
func (r *Result) NumViolations() int {
	r.mu.Lock()
	defer r.mu.Unlock()
	return len(r.Violations)
}

// Emit appends the part to the output file of this process.
func (e *Env) Emit(r *Result) {
	e.mu.Lock()
	defer e.mu.Unlock()
	r.mu.Lock()
	if r.WallS == 0 {
		r.WallS = time.Since(e.start).Seconds()
	}
	sort.SliceStable(r.Violations, func(i, j int) bool { return r.Violations[i].Key < r.Violations[j].Key })
	r.mu.Unlock()
	e.parts = append(e.parts, r)
	if e.Out == "" {
		return
	}
	b, err := json.MarshalIndent(e.parts, "", " ")
	if err != nil {
		panic(err)
	}
	if err := os.WriteFile(e.Out, b, 0o644); err != nil {
		panic(err)
	}
}

// ReplayData loads the replay payload (the "replay" member of a replay file) when VERIF_REPLAY is set.
func (e *Env) ReplayData(into any) (part string, ok bool) {
	if e.Replay == "" {
		return "", false
	}
	b, err := os.ReadFile(e.Replay)
	if err != nil {
		panic(err)
	}
	var f struct {
		Part   string          `json:"part"`
		Replay json.RawMessage `json:"replay"`
	}
	if err := json.Unmarshal(b, &f); err != nil {
		panic(err)
	}
	if err := json.Unmarshal(f.Replay, into); err != nil {
		panic(err)
	}
	return f.Part, true
}
