package mc

import (
	"crypto/sha256"
	"fmt"
	"runtime/debug"
	"sort"
	"sync"
	"sync/atomic"
)

// System is a fresh instance of the real code under exploration plus the harness' reference model.
type System interface {
	// Apply performs one event of the alphabet on the real code. enabled=false means the environment cannot
	// produce this event in the current state (the transition does not exist). When check is true the
	// transition-level oracle clauses are evaluated and returned.
	Apply(op int, check bool) (enabled bool, viol []Violation)
	// Invariants evaluates the state-level oracle clauses.
	Invariants() []Violation
	// Key returns the canonical form of the state (sorted, property-relevant fields only).
	Key() string
}

// BFS is explicit-state breadth-first search where a state is the shortest event history reaching it and a
// successor is computed by replaying that history on a fresh System and applying one more event.
type BFS struct {
	Res      *Result
	Env      *Env
	New      func() System
	NumOps   int
	OpName   func(op int) string
	MaxDepth int
	// MaxStates caps the number of states (0 = no cap); hitting it is reported as a cap.
	MaxStates int
	// Repeats re-executes every transition this many extra times so several Go map iteration orders are seen;
	// each run is judged on its own.
	Repeats int
	// KeysMustAgree demands that the repeats reach the same canonical state (only where the property promises
	// order independence); otherwise differing keys are only counted.
	KeysMustAgree bool
}

type bfsOut struct {
	parent int
	op     int
	ok     bool
	key    [16]byte
	viol   []Violation
	panicS string
}

func hkey(s string) [16]byte {
	h := sha256.Sum256([]byte(s))
	var k [16]byte
	copy(k[:], h[:16])
	return k
}

func (b *BFS) names(hist []uint8) []string {
	out := make([]string, len(hist))
	for i, o := range hist {
		out[i] = b.OpName(int(o))
	}
	return out
}

// exec replays hist on a fresh system, checking only the last transition and the final state.
func (b *BFS) exec(hist []uint8) (ok bool, key string, viol []Violation, panicS string) {
	defer func() {
		if r := recover(); r != nil {
			ok = true
			panicS = fmt.Sprintf("panic: %v\n%s", r, debug.Stack())
		}
	}()
	s := b.New()
	for i, o := range hist {
		last := i == len(hist)-1
		en, v := s.Apply(int(o), last)
		if !en {
			if !last {
				// a prefix that was executed before is refused now: the code's answer depends on something outside the
				// history (Go map iteration order). Reported under its own key, the history is not expanded.
				return false, "", []Violation{{Key: b.Res.Property + "|" + b.Res.Part + "|nondeterministic-replay",
					What: fmt.Sprintf("event %d (%s) of the history %v was accepted when the history was first executed and is refused on re-execution: the outcome depends on something outside the event history (map iteration order?)", i, b.OpName(int(o)), b.names(hist))}}, ""
			}
			return false, "", v, "" // (a harness may judge a refusal: violations of a transition that did not take place are kept)
		}
		if last {
			viol = append(viol, v...)
		}
	}
	// the key is taken BEFORE the state-level oracle runs: an oracle may probe the system through calls that
	// refresh caches (e.g. lazily computed values), and that must not leak into the state identity
	key = s.Key()
	viol = append(viol, s.Invariants()...)
	return true, key, viol, ""
}

// Run explores to MaxDepth (or until the frontier empties, the state cap or the time budget is hit).
func (b *BFS) Run() {
	if b.NumOps > 255 {
		panic("mc: alphabet too large")
	}
	res := b.Res
	res.Kind = "bfs"
	if b.Env.Replay != "" {
		b.replay()
		return
	}
	seen := map[[16]byte]struct{}{}
	ok, key, viol, ps := b.exec(nil)
	if !ok || ps != "" {
		panic("mc: initial state failed: " + ps)
	}
	for _, v := range viol {
		v.Replay = map[string]any{"ops": []string{}, "idx": []uint8{}}
		res.Violate(v)
	}
	seen[hkey(key)] = struct{}{}
	frontier := [][]uint8{{}}
	res.States = 1
	res.Exhaustive = false
	depth := 0
	var distinctOutcomes sync.Map
	for depth < b.MaxDepth && len(frontier) > 0 {
		tasks := len(frontier) * b.NumOps
		outs := make([]bfsOut, tasks)
		var next int64 = -1
		var wg sync.WaitGroup
		var expired atomic.Bool
		for w := 0; w < b.Env.Workers; w++ {
			wg.Add(1)
			go func() {
				defer wg.Done()
				for {
					i := int(atomic.AddInt64(&next, 1))
					if i >= tasks {
						return
					}
					if i%64 == 0 && b.Env.Expired() {
						expired.Store(true)
					}
					if expired.Load() {
						return
					}
					p, op := i/b.NumOps, i%b.NumOps
					hist := append(append(make([]uint8, 0, len(frontier[p])+1), frontier[p]...), uint8(op))
					ok, key, viol, ps := b.exec(hist)
					o := bfsOut{parent: p, op: op, ok: ok, viol: viol, panicS: ps}
					if ok && ps == "" {
						o.key = hkey(key)
						for r := 0; r < b.Repeats; r++ {
							ok2, key2, viol2, ps2 := b.exec(hist)
							if ps2 != "" {
								o.panicS = ps2
								break
							}
							if !ok2 {
								// the code under check answered the same history differently (Go map iteration order): not an
								// engine error; the transition is kept with its first outcome, both outcomes are judged
								res.Count("map_order_enabledness_differences", 1)
								if len(viol2) > 0 && len(o.viol) == 0 {
									o.viol = viol2
								}
								continue
							}
							if len(viol2) > 0 && len(o.viol) == 0 {
								o.viol = viol2
							}
							if key2 != key {
								res.Count("map_order_key_differences", 1)
								if b.KeysMustAgree {
									o.viol = append(o.viol, Violation{Key: res.Property + "|" + res.Part + "|order-dependent-state",
										What: "repeated executions of the same history reached different canonical states:\n" + key + "\n--- vs ---\n" + key2})
								}
							}
						}
					}
					outs[i] = o
				}
			}()
		}
		wg.Wait()
		if expired.Load() {
			res.Capped = fmt.Sprintf("time budget hit while expanding depth %d (fully completed: depth %d)", depth+1, depth)
			break
		}
		var nextFrontier [][]uint8
		capHit := false
		for i := range outs {
			o := &outs[i]
			if !o.ok {
				if len(o.viol) > 0 { // a refused event whose refusal the harness judged
					hist := append(append([]uint8{}, frontier[o.parent]...), uint8(o.op))
					for _, v := range o.viol {
						res.Violate(b.confirm(v, hist))
					}
				}
				continue
			}
			res.Transitions++
			hist := append(append([]uint8{}, frontier[o.parent]...), uint8(o.op))
			if o.panicS != "" {
				res.Violate(b.confirm(Violation{Key: res.Property + "|" + res.Part + "|panic|" + b.OpName(o.op), What: o.panicS}, hist))
				continue
			}
			for _, v := range o.viol {
				res.Violate(b.confirm(v, hist))
			}
			if _, dup := seen[o.key]; dup {
				continue
			}
			seen[o.key] = struct{}{}
			distinctOutcomes.Store(o.key, true)
			if b.MaxStates > 0 && len(seen) >= b.MaxStates {
				capHit = true
			}
			nextFrontier = append(nextFrontier, hist)
			if len(nextFrontier)%9973 == 1 {
				res.Sample(b.names(hist))
			}
		}
		depth++
		res.MaxDepth = depth
		res.States = int64(len(seen))
		frontier = nextFrontier
		if capHit {
			res.Capped = fmt.Sprintf("state cap %d hit after depth %d", b.MaxStates, depth)
			break
		}
	}
	if len(frontier) == 0 {
		res.Exhaustive = true
		if res.Bounds == nil {
			res.Bounds = map[string]any{}
		}
		res.Bounds["closed"] = "frontier emptied: the reachable state set under this alphabet is closed"
	} else if res.Capped == "" {
		// The depth bound was completed: every event sequence of length <= MaxDepth (modulo state equivalence).
		res.Exhaustive = true
	}
	if res.Bounds == nil {
		res.Bounds = map[string]any{}
	}
	res.Bounds["depth"] = res.MaxDepth
	res.Bounds["alphabet"] = b.NumOps
	res.Bounds["frontier_left"] = len(frontier)
	if len(frontier) > 0 {
		res.Sample(b.names(frontier[len(frontier)-1]))
		res.Sample(b.names(frontier[len(frontier)/2]))
	}
	// one execution on the real code per transition (+ repeats) + the initial one
	res.Traces = res.Transitions*int64(1+b.Repeats) + 1
	res.Evaluations = res.Traces
	res.Distinct = res.States
}

// replay executes exactly the history stored in the replay file (VERIF_REPLAY) and reports its verdict.
func (b *BFS) replay() {
	var rp struct {
		Idx []uint8  `json:"idx"`
		Ops []string `json:"ops"`
	}
	part, _ := b.Env.ReplayData(&rp)
	res := b.Res
	if part != "" && part != res.Part {
		return
	}
	if len(rp.Idx) == 0 && len(rp.Ops) > 0 {
		// resolve by name (robust against alphabet re-ordering)
		for _, n := range rp.Ops {
			found := false
			for i := 0; i < b.NumOps; i++ {
				if b.OpName(i) == n {
					rp.Idx = append(rp.Idx, uint8(i))
					found = true
					break
				}
			}
			if !found {
				panic("mc: replay op not in alphabet: " + n)
			}
		}
	}
	viol, key := b.ReplayOps(rp.Idx)
	fmt.Printf("REPLAY part=%s ops=%v\n", res.Part, b.names(rp.Idx))
	for _, v := range viol {
		fmt.Printf("REPLAY VIOLATION key=%s what=%s\n", v.Key, v.What)
		v.Replay = map[string]any{"ops": b.names(rp.Idx), "idx": rp.Idx}
		res.Violate(v)
	}
	if len(viol) == 0 {
		fmt.Printf("REPLAY OK (no clause violated); state key digest %x\n", hkey(key))
	}
	res.States, res.Transitions, res.Traces, res.Evaluations, res.Distinct = 1, int64(len(rp.Idx)), 1, 1, 1
	res.Sample(b.names(rp.Idx))
}

// confirm re-executes a violating history from scratch and records how often the violation key reappears.
func (b *BFS) confirm(v Violation, hist []uint8) Violation {
	v.Replay = map[string]any{"ops": b.names(hist), "idx": hist}
	n, hit := 0, 0
	for n < 50 && hit < 5 {
		n++
		_, _, viol, ps := b.exec(hist)
		found := ps != "" && len(v.Key) > 0 && containsPanicKey(v.Key)
		for _, w := range viol {
			if w.Key == v.Key {
				found = true
			}
		}
		if found {
			hit++
		} else if n >= 10 && hit == 0 {
			break
		}
	}
	v.Reproduced = fmt.Sprintf("%d/%d", hit, n)
	return v
}

func containsPanicKey(k string) bool {
	for i := 0; i+7 <= len(k); i++ {
		if k[i:i+7] == "|panic|" {
			return true
		}
	}
	return false
}

// ReplayOps re-executes one history given as op indexes and returns the verdict (used by `check --replay`).
func (b *BFS) ReplayOps(idx []uint8) (viol []Violation, key string) {
	_, key, viol, ps := b.exec(idx)
	if ps != "" {
		viol = append(viol, Violation{Key: "panic", What: ps})
	}
	return viol, key
}

// SortedKeys returns the sorted keys of a string-keyed map.
func SortedKeys[V any](m map[string]V) []string {
	ks := make([]string, 0, len(m))
	for k := range m {
		ks = append(ks, k)
	}
	sort.Strings(ks)
	return ks
}
