package vsync

import (
	"fmt"
	"os"
	"runtime/debug"
	"strconv"
	"sync"
	"time"
)

type opKind int

const (
	opStart opKind = iota
	opMLock        // sync.Mutex Lock
	opWLock        // RWMutex Lock
	opRLock        // RWMutex RLock
	opNop          // explicit point / after unlock
)

type killSig struct{}

type thread struct {
	id      int
	fn      func()
	resume  chan bool
	kind    opKind
	lock    *lockState
	label   string
	arrived bool
	done    bool
	killed  bool
	panicS  string
}

// PointRec describes one scheduling point at which more than one thread was enabled.
type PointRec struct {
	Enabled        []int // thread ids in canonical order (running thread first if still enabled)
	Chosen         int   // index into Enabled
	RunningEnabled bool
}

// Outcome is what one complete execution produced.
type Outcome struct {
	Choices  []int
	Points   []PointRec
	Trace    []string
	Deadlock bool
	Livelock bool
	Panic    string
	Steps    int
	// Diverged: while replaying the stored prefix the enabled set did not admit the stored choice: the code under check
	// took its scheduling points in another order than in the execution the prefix was recorded from (Go map iteration
	// order inside the code, e.g. locking the quotas of a map in iteration order). The execution is abandoned, counted
	// and never judged; the exploration is then not exhaustive.
	Diverged bool
}

type exec struct {
	threads       []*thread
	cur           *thread
	yield         chan struct{}
	prefix        []int
	out           *Outcome
	pointAtUnlock bool
	horizon       int
	onPoint       func()
	trace         bool
}

// active is the running exploration; only the single running harness thread or the scheduler touches it.
var active *exec

func (x *exec) park(t *thread) {
	x.yield <- struct{}{}
	if ok := <-t.resume; !ok {
		t.killed = true
		panic(killSig{})
	}
}

func (x *exec) acquire(st *lockState, kind opKind, label string) {
	t := x.cur
	if t.killed {
		return
	}
	if kind == opWLock && label == "Mutex.Lock" {
		kind = opMLock
	}
	t.kind, t.lock, t.label = kind, st, label
	x.park(t)
}

func (x *exec) release(st *lockState, kind opKind, label string) {
	t := x.cur
	if kind == opRLock {
		if st.readers <= 0 {
			if t.killed {
				return
			}
			panic("vsync: RUnlock of unlocked RWMutex")
		}
		st.readers--
	} else {
		if st.writer == 0 {
			if t.killed {
				return
			}
			panic("vsync: Unlock of unlocked mutex")
		}
		st.writer = 0
	}
	if t.killed || !x.pointAtUnlock {
		return
	}
	t.kind, t.lock, t.label = opNop, nil, label
	x.park(t)
}

func (x *exec) point(label string) {
	t := x.cur
	if t.killed {
		return
	}
	t.kind, t.lock, t.label = opNop, nil, label
	x.park(t)
}

func (x *exec) isEnabled(t *thread) bool {
	if t.done {
		return false
	}
	switch t.kind {
	case opMLock:
		return t.lock.writer == 0
	case opWLock:
		return !t.arrived || (t.lock.writer == 0 && t.lock.readers == 0)
	case opRLock:
		return t.lock.writer == 0 && t.lock.pendingW == 0
	}
	return true
}

func (x *exec) start(t *thread) {
	go func() {
		defer func() {
			if r := recover(); r != nil {
				if _, k := r.(killSig); !k {
					t.panicS = fmt.Sprintf("panic in thread %d: %v\n%s", t.id, r, debug.Stack())
				}
			}
			t.done = true
			x.yield <- struct{}{}
		}()
		if ok := <-t.resume; !ok {
			t.killed = true
			panic(killSig{})
		}
		t.fn()
	}()
}

func (x *exec) run() {
	active = x
	defer func() { active = nil }()
	for _, t := range x.threads {
		x.start(t)
	}
	var running *thread
	o := x.out
	for {
		if x.onPoint != nil {
			x.onPoint()
		}
		var en []*thread
		if running != nil && x.isEnabled(running) {
			en = append(en, running)
		}
		for _, t := range x.threads {
			if t != running && x.isEnabled(t) {
				en = append(en, t)
			}
		}
		if len(en) == 0 {
			for _, t := range x.threads {
				if !t.done {
					o.Deadlock = true
				}
			}
			break
		}
		choice := 0
		if len(en) > 1 {
			k := len(o.Choices)
			if k < len(x.prefix) {
				choice = x.prefix[k]
				if choice < 0 || choice >= len(en) {
					o.Diverged = true
					break
				}
			}
			ids := make([]int, len(en))
			for i, t := range en {
				ids[i] = t.id
			}
			o.Choices = append(o.Choices, choice)
			o.Points = append(o.Points, PointRec{Enabled: ids, Chosen: choice, RunningEnabled: running != nil && en[0] == running})
		}
		t := en[choice]
		running = t
		if x.trace {
			o.Trace = append(o.Trace, fmt.Sprintf("T%d:%s", t.id, t.label))
		}
		o.Steps++
		if o.Steps > x.horizon {
			o.Livelock = true
			break
		}
		switch t.kind {
		case opMLock:
			t.lock.writer = t.id + 1
		case opWLock:
			if t.lock.writer == 0 && t.lock.readers == 0 {
				t.lock.writer = t.id + 1
				if t.arrived {
					t.arrived = false
					t.lock.pendingW--
				}
			} else {
				// the writer arrives and blocks: from now on new readers are not admitted
				t.arrived = true
				t.lock.pendingW++
				continue
			}
		case opRLock:
			t.lock.readers++
		}
		x.cur = t
		t.resume <- true
		<-x.yield
		if t.done && t.panicS != "" {
			o.Panic = t.panicS
			break
		}
	}
	// kill whatever is still parked so no goroutine leaks into the next execution
	for _, t := range x.threads {
		if !t.done {
			x.cur = t
			t.resume <- false
			<-x.yield
		}
	}
}

// Explorer enumerates the interleavings of a closed multi-threaded scenario by stateless depth-first search
// with a preemption bound (iterative context bounding).
type Explorer struct {
	// Bound is the maximal number of preemptions per execution; negative = unbounded.
	Bound int
	// NoPointAtUnlock drops the scheduling point after each unlock (sound only for race-free code).
	NoPointAtUnlock bool
	Horizon         int
	MaxExecs        int64
	Expired         func() bool
	// Build creates fresh objects for one execution: the thread bodies, an optional hook evaluated at every
	// scheduling point while no thread runs, and the oracle evaluated at quiescence.
	Build func() (threads []func(), onPoint func(), check func(o *Outcome))

	Execs    int64
	Diverged int64 // executions abandoned because the stored prefix could not be replayed (see Outcome.Diverged)
	Capped   string
}

func (e *Explorer) once(prefix []int, trace bool) *Outcome {
	threads, onPoint, check := e.Build()
	x := &exec{yield: make(chan struct{}), prefix: prefix, out: &Outcome{}, pointAtUnlock: !e.NoPointAtUnlock,
		horizon: e.Horizon, onPoint: onPoint, trace: trace}
	if x.horizon == 0 {
		x.horizon = 20000
	}
	for i, f := range threads {
		x.threads = append(x.threads, &thread{id: i, fn: f, resume: make(chan bool), kind: opStart, label: "start"})
	}
	x.run()
	if check != nil && !x.out.Diverged {
		check(x.out)
	}
	return x.out
}

// Replay executes exactly one schedule (choice list); later points take the non-preempting default.
// A recorded schedule that cannot be followed is a hard error here (unlike during exploration, see Outcome.Diverged).
func (e *Explorer) Replay(choices []int) *Outcome {
	o := e.once(choices, true)
	if o.Diverged {
		panic(fmt.Sprintf("vsync: schedule diverged: the recorded choices %v cannot be followed (after %d points)", choices, len(o.Choices)))
	}
	return o
}

// FreeRunReps > 0 (environment VERIF_FREERUN) switches every Explorer from exploring to the supplementary race pass:
// the scenario is built and run FreeRunReps times with its threads as free-running goroutines on the real sync
// primitives (the shim delegates while no exploration is active), so that a binary built with -race can report
// unsynchronised accesses, which the cooperative scheduler's hand-offs would hide. Nothing is judged in this mode.
var FreeRunReps = func() int { n, _ := strconv.Atoi(os.Getenv("VERIF_FREERUN")); return n }()

// FreeRunHangs counts free runs whose threads did not finish within the watchdog time.
var FreeRunHangs int

func (e *Explorer) freeRun(reps int) {
	for r := 0; r < reps; r++ {
		threads, _, _ := e.Build()
		var wg sync.WaitGroup
		start := make(chan struct{})
		for _, f := range threads {
			f := f
			wg.Add(1)
			go func() {
				defer wg.Done()
				defer func() { _ = recover() }()
				<-start
				f()
			}()
		}
		close(start)
		done := make(chan struct{})
		go func() { wg.Wait(); close(done) }()
		select {
		case <-done:
		case <-time.After(20 * time.Second):
			FreeRunHangs++
			return
		}
		e.Execs++
	}
}

// Run explores every schedule within the bound. It returns true when the space was covered completely.
func (e *Explorer) Run() bool {
	if FreeRunReps > 0 {
		e.freeRun(FreeRunReps)
		return true
	}
	stack := [][]int{{}}
	for len(stack) > 0 {
		if e.MaxExecs > 0 && e.Execs >= e.MaxExecs {
			e.Capped = fmt.Sprintf("execution cap %d hit", e.MaxExecs)
			return false
		}
		if e.Expired != nil && e.Execs%32 == 0 && e.Expired() {
			e.Capped = "time budget hit"
			return false
		}
		prefix := stack[len(stack)-1]
		stack = stack[:len(stack)-1]
		o := e.once(prefix, false)
		e.Execs++
		if o.Diverged {
			e.Diverged++
			continue
		}
		pre := 0
		for i := 0; i < len(o.Points); i++ {
			p := o.Points[i]
			if i >= len(prefix) {
				cost := pre
				if p.RunningEnabled {
					cost++
				}
				if e.Bound < 0 || cost <= e.Bound {
					for alt := 1; alt < len(p.Enabled); alt++ {
						np := make([]int, i+1)
						copy(np, o.Choices[:i])
						np[i] = alt
						stack = append(stack, np)
					}
				}
			}
			if p.RunningEnabled && p.Chosen != 0 {
				pre++
			}
		}
	}
	if e.Diverged > 0 {
		e.Capped = fmt.Sprintf("%d of %d executions abandoned: their stored prefix could not be replayed (the code takes its scheduling points in an order that depends on map iteration)", e.Diverged, e.Execs)
		return false
	}
	return true
}
