// Package vsync is a drop-in replacement for the parts of "sync" used by the packages whose interleavings are
// explored. Outside an exploration every primitive delegates to the real one. Inside an exploration
// (Explorer.Run) Lock/RLock/Unlock/RUnlock are scheduling points of the controlled cooperative scheduler in
// sched.go and lock state is modelled, so a thread that would block is simply not enabled.
package vsync

import "sync"

type (
	Once      = sync.Once
	Map       = sync.Map
	WaitGroup = sync.WaitGroup
	Pool      = sync.Pool
	Cond      = sync.Cond
	Locker    = sync.Locker
)

func NewCond(l Locker) *Cond { return sync.NewCond(l) }

func OnceFunc(f func()) func() { return sync.OnceFunc(f) }

type lockState struct {
	writer   int // thread id + 1, 0 = none
	readers  int
	pendingW int // writers that arrived and wait (Go's RWMutex blocks new readers then)
}

// Mutex mirrors sync.Mutex.
type Mutex struct {
	real sync.Mutex
	st   lockState
}

func (m *Mutex) Lock() {
	if x := active; x != nil {
		x.acquire(&m.st, opWLock, "Mutex.Lock")
		return
	}
	m.real.Lock()
}

func (m *Mutex) TryLock() bool {
	if x := active; x != nil {
		x.point("Mutex.TryLock")
		if m.st.writer == 0 {
			m.st.writer = x.cur.id + 1
			return true
		}
		return false
	}
	return m.real.TryLock()
}

func (m *Mutex) Unlock() {
	if x := active; x != nil {
		x.release(&m.st, opWLock, "Mutex.Unlock")
		return
	}
	m.real.Unlock()
}

// RWMutex mirrors sync.RWMutex including writer preference.
type RWMutex struct {
	real sync.RWMutex
	st   lockState
}

func (m *RWMutex) Lock() {
	if x := active; x != nil {
		x.acquire(&m.st, opWLock, "RWMutex.Lock")
		return
	}
	m.real.Lock()
}

func (m *RWMutex) Unlock() {
	if x := active; x != nil {
		x.release(&m.st, opWLock, "RWMutex.Unlock")
		return
	}
	m.real.Unlock()
}

func (m *RWMutex) RLock() {
	if x := active; x != nil {
		x.acquire(&m.st, opRLock, "RWMutex.RLock")
		return
	}
	m.real.RLock()
}

func (m *RWMutex) RUnlock() {
	if x := active; x != nil {
		x.release(&m.st, opRLock, "RWMutex.RUnlock")
		return
	}
	m.real.RUnlock()
}

func (m *RWMutex) TryLock() bool {
	if x := active; x != nil {
		x.point("RWMutex.TryLock")
		if m.st.writer == 0 && m.st.readers == 0 {
			m.st.writer = x.cur.id + 1
			return true
		}
		return false
	}
	return m.real.TryLock()
}

func (m *RWMutex) TryRLock() bool {
	if x := active; x != nil {
		x.point("RWMutex.TryRLock")
		if m.st.writer == 0 && m.st.pendingW == 0 {
			m.st.readers++
			return true
		}
		return false
	}
	return m.real.TryRLock()
}

type rlocker RWMutex

func (r *rlocker) Lock()   { (*RWMutex)(r).RLock() }
func (r *rlocker) Unlock() { (*RWMutex)(r).RUnlock() }

func (m *RWMutex) RLocker() Locker { return (*rlocker)(m) }

// Point is an explicit scheduling point placed by a harness (or by an injected source rewrite) at an
// environment boundary or in front of an unsynchronised shared access. It is a no-op outside explorations.
func Point(label string) {
	if x := active; x != nil {
		x.point(label)
	}
}

// Active tells whether an exploration is running.
func Active() bool { return active != nil }
