package mc

import (
	"fmt"
	"hash/fnv"
	"runtime/debug"
	"sync"
	"sync/atomic"
)

// Radix is a mixed-radix counter: case i of Size() decodes into one digit per dimension.
type Radix struct {
	Dims []int
}

func (r Radix) Size() int64 {
	n := int64(1)
	for _, d := range r.Dims {
		n *= int64(d)
	}
	return n
}

func (r Radix) Decode(i int64, into []int) []int {
	into = into[:0]
	for _, d := range r.Dims {
		into = append(into, int(i%int64(d)))
		i /= int64(d)
	}
	return into
}

// ParallelRange evaluates f(i) for every i in [0,n) that belongs to this shard, on Env.Workers goroutines.
// It returns the number of evaluated cases and whether the whole range was completed (false = the time
// budget was hit; the caller reports that as a cap). A panic inside f is returned as a violation-like error
// string together with the index so the harness can report it as an "agent crash" style finding if relevant.
func (e *Env) ParallelRange(n int64, f func(i int64)) (done int64, complete bool) {
	return e.ParallelRangeL(nil, n, func(_ *Local, i int64) { f(i) })
}

// Local is a worker-private accumulator (no contention on hot enumeration loops); it is merged into the
// Result when the range is done.
type Local struct {
	Worker   int
	Evals    int64
	counters map[string]int64
	maxes    map[string]int64
}

func (l *Local) Count(name string, n int64) { l.counters[name] += n }
func (l *Local) Max(name string, v int64) {
	if l.maxes[name] < v {
		l.maxes[name] = v
	}
}

// ParallelRangeL is ParallelRange with a worker-local accumulator that is merged into res at the end
// (res.Evaluations += sum of Local.Evals).
func (e *Env) ParallelRangeL(res *Result, n int64, f func(l *Local, i int64)) (done int64, complete bool) {
	locals := make([]*Local, e.Workers)
	defer func() {
		if res == nil {
			return
		}
		for _, l := range locals {
			res.Evaluations += l.Evals
			for k, v := range l.counters {
				res.Count(k, v)
			}
			for k, v := range l.maxes {
				res.MaxCounter(k, v)
			}
		}
	}()
	var next int64 = -1
	var cnt int64
	var expired atomic.Bool
	var wg sync.WaitGroup
	const chunk = 256
	chunks := (n + chunk - 1) / chunk
	for w := 0; w < e.Workers; w++ {
		wg.Add(1)
		l := &Local{Worker: w, counters: map[string]int64{}, maxes: map[string]int64{}}
		locals[w] = l
		go func() {
			defer wg.Done()
			for {
				c := atomic.AddInt64(&next, 1)
				if c >= chunks {
					return
				}
				if e.Expired() {
					expired.Store(true)
					return
				}
				if !e.Mine(int(c)) {
					continue
				}
				hi := (c + 1) * chunk
				if hi > n {
					hi = n
				}
				for i := c * chunk; i < hi; i++ {
					f(l, i)
				}
				atomic.AddInt64(&cnt, hi-c*chunk)
			}
		}()
	}
	wg.Wait()
	return cnt, !expired.Load()
}

// Guard runs f and converts a panic into a string (empty when f returned normally).
func Guard(f func()) (panicS string) {
	defer func() {
		if r := recover(); r != nil {
			panicS = fmt.Sprintf("panic: %v\n%s", r, debug.Stack())
		}
	}()
	f()
	return ""
}

// DistinctSet counts distinct digests concurrently (used to *measure* distinct_nontrivial).
type DistinctSet struct {
	shards [64]struct {
		mu sync.Mutex
		m  map[uint64]struct{}
	}
}

func NewDistinctSet() *DistinctSet {
	d := &DistinctSet{}
	for i := range d.shards {
		d.shards[i].m = map[uint64]struct{}{}
	}
	return d
}

func (d *DistinctSet) Add(s string) {
	h := fnv.New64a()
	h.Write([]byte(s))
	d.AddHash(h.Sum64())
}

func (d *DistinctSet) AddHash(k uint64) {
	sh := &d.shards[k%64]
	sh.mu.Lock()
	sh.m[k] = struct{}{}
	sh.mu.Unlock()
}

func (d *DistinctSet) Len() int64 {
	var n int64
	for i := range d.shards {
		d.shards[i].mu.Lock()
		n += int64(len(d.shards[i].m))
		d.shards[i].mu.Unlock()
	}
	return n
}

// Subsets calls f with every subset mask of n elements.
func Subsets(n int, f func(mask uint32)) {
	for m := uint32(0); m < 1<<uint(n); m++ {
		f(m)
	}
}

// Permutations calls f with every permutation of 0..n-1 (Heap's algorithm; f must not keep the slice).
func Permutations(n int, f func(p []int)) {
	p := make([]int, n)
	for i := range p {
		p[i] = i
	}
	var rec func(k int)
	rec = func(k int) {
		if k <= 1 {
			f(p)
			return
		}
		for i := 0; i < k; i++ {
			rec(k - 1)
			if k%2 == 0 {
				p[i], p[k-1] = p[k-1], p[i]
			} else {
				p[0], p[k-1] = p[k-1], p[0]
			}
		}
	}
	rec(n)
}
