//go:build linux
// +build linux

// Pure-Go stand-in for pkg/koordlet/util/perf_group/perf_group_linux.go, overlaid by /verif/bin/check only.
// The real file needs cgo + libpfm headers that are absent in this image; nothing any property observes
// goes through it.
package perf_group

import "os"

const (
	CYCLES       = "cycles"
	INSTRUCTIONS = "instructions"
)

var EventsMap = map[string][]string{
	"CPICollector": {"cycles", "instructions"},
}

type PerfGroupCollector struct{}

func InitBufferPool(eventsNums map[int]struct{}) {}
func LibInit()                                    {}
func LibFinalize()                                {}

func GetAndStartPerfGroupCollectorOnContainer(cgroupFile *os.File, cpus []int, events []string) (*PerfGroupCollector, error) {
	return nil, nil
}

func GetContainerPerfResult(collector *PerfGroupCollector) (map[string]float64, error) {
	return map[string]float64{}, nil
}

func GetContainerCyclesAndInstructionsGroup(collector *PerfGroupCollector) (float64, float64, error) {
	return 0, 0, nil
}
